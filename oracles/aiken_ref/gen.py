"""Type-directed random generator of well-typed Aiken modules (generator AST: gast.py).

generate_module(rng, size) -> gast.Module
gen_args(rng, types, n, adts, hints) -> list of argument tuples (python values, see model.py)
"""
import gast as G
from gast import INT, BOOL, BYTES, STRING, VOID, DATA, ORDERING, TList, TTuple, TPair, TAdt, TOption, TFn, TVar
import model as M
from model import VCon, VPair
import pats
import analysis as A

BOUNDARY_INTS = [0, 1, -1, 2, -2, 3, 7, -7, 10, 255, 256, -256, 2**31, 2**63 - 1, 2**63, -(2**63), -(2**63) - 1, 2**64, 2**64 + 1, -(2**64), 2**128 + 5, -(2**127)]
ASCII = "abcxyz019 _-"
MSGS = ["boom", "nope", "unreachable", "tag 1", "x"]
STYLE_INT = ["dec", "dec", "dec", "hex", "und"]


class Scope(object):
    __slots__ = ("vars", "specials", "protected")

    def __init__(self, vars_=(), specials=(), protected=frozenset()):
        self.vars = tuple(vars_)  # (name, ty, hint)
        self.specials = tuple(specials)  # (ret_ty, builder(gen, sc, d) -> expr, tag)
        self.protected = protected

    def extend(self, binds):
        return Scope(self.vars + tuple((n, t, None) if True else None for n, t in binds), self.specials, self.protected)

    def extend_h(self, binds):
        return Scope(self.vars + tuple(binds), self.specials, self.protected)

    def with_specials(self, sp, protected):
        return Scope(self.vars, self.specials + tuple(sp), self.protected | frozenset(protected))

    def visible(self):
        seen = set()
        out = []
        for n, t, h in reversed(self.vars):
            if n in seen:
                continue
            seen.add(n)
            out.append((n, t, h))
        return out

    def of_type(self, ty):
        return [(n, t, h) for n, t, h in self.visible() if t == ty]

    def names(self):
        return set(n for n, _t, _h in self.vars)


class Gen(object):
    def __init__(self, rng, size=3, opts=None):
        self.rng = rng
        self.size = size
        self.opts = opts or {}
        self.adts = []
        self.adt_tab = dict(G.PRELUDE_ADTS)
        self.consts = []
        self.fns = []
        self.callable = []
        self.features = {}
        self.uid = 0
        self.pool = []
        self.nodes_left = 0
        self.tvars_in_scope = []
        self.inst_seen = {}
        self.bound_labels = set()
        self.strict_params = {}
        self.allow_hazard = bool(self.opts.get("allow_hazard", False))
        self.abortiness = self.opts.get("abortiness", 1.0)

    # ---------------------------------------------------------------- helpers
    def feat(self, tag):
        self.features[tag] = self.features.get(tag, 0) + 1

    def fresh(self, prefix="v"):
        self.uid += 1
        return "%s%d" % (prefix, self.uid)

    def var_name(self, sc, ty=None):
        """usually fresh; sometimes shadows a visible, unprotected local."""
        if self.rng.chance(1, 12):
            c = [n for n, _t, _h in sc.visible() if n not in sc.protected]
            if c:
                self.feat("shadowing")
                return self.rng.pick(c)
        return self.fresh("v")

    def choose(self, cands):
        """cands: [(weight(int), thunk)]"""
        total = sum(w for w, _ in cands)
        x = self.rng.below(total)
        for w, t in cands:
            if x < w:
                return t
            x -= w
        return cands[-1][1]

    # ---------------------------------------------------------------- types
    def gen_type(self, d=2, ser=True, fresh=False):
        r = self.rng
        if not fresh and self.pool and r.chance(3, 4):
            for _ in range(4):
                t = r.pick(self.pool)
                if (not ser or G.serialisable(t)) and (d > 0 or t[0] not in ("List", "Tuple", "Pair", "Adt") or t == ORDERING):
                    return t
        c = [(30, lambda: INT), (10, lambda: BOOL), (10, lambda: BYTES), (2, lambda: VOID), (2, lambda: ORDERING)]
        if r.chance(1, 1):
            c.append((2, lambda: DATA))
        if not ser:
            c.append((2, lambda: STRING))
        if d > 0:
            c += [
                (12, lambda: TList(self.gen_type(d - 1, ser, fresh))),
                (7, lambda: TTuple(*[self.gen_type(d - 1, ser, fresh) for _ in range(self.choose([(6, 2), (3, 3), (1, 4)]))])),
                (3, lambda: TPair(self.gen_type(d - 1, True, fresh), self.gen_type(d - 1, True, fresh))),
                (7, lambda: TOption(self.gen_type(d - 1, ser, fresh))),
            ]
            if self.adts:
                c.append((14, lambda: self.gen_adt_type(d - 1)))
        return self.choose(c)()

    def gen_adt_type(self, d):
        a = self.rng.pick(self.adts)
        return TAdt(a.name, *[self.gen_type(d, True) for _ in a.tparams])

    def ctor_ftypes(self, ty, idx):
        return M.ctor_field_types(self.adt_tab, ty, idx)

    def base_ctors(self, ty):
        """constructor indices of an ADT type whose fields do not mention the ADT itself"""
        decl = self.adt_tab[ty[1]]
        out = []
        for i, c in enumerate(decl.ctors):
            if not any(self.mentions(ft, decl.name) for _l, ft in c.fields):
                out.append(i)
        return out

    def mentions(self, t, name):
        k = t[0]
        if k == "Adt":
            return t[1] == name or any(self.mentions(x, name) for x in t[2])
        if k == "List":
            return self.mentions(t[1], name)
        if k == "Tuple":
            return any(self.mentions(x, name) for x in t[1:])
        if k == "Pair":
            return self.mentions(t[1], name) or self.mentions(t[2], name)
        return False

    # ---------------------------------------------------------------- values
    def gen_int(self, small=False):
        r = self.rng
        if small or r.chance(3, 5):
            return r.range(-9, 12)
        if r.chance(1, 2):
            return r.pick(BOUNDARY_INTS)
        return r.range(-1000, 1000) * r.pick([1, 1, 1000, 2**32, 2**70])

    def gen_bytes(self):
        r = self.rng
        n = self.choose([(3, 0), (4, 1), (4, 2), (3, 4), (1, 32), (1, 9)])
        if r.chance(1, 3):
            return bytes(ord(r.pick(ASCII)) for _ in range(n))
        return r.bytes(n) if n else b""

    def gen_data(self, d=2):
        r = self.rng
        k = r.below(5 if d > 0 else 2)
        if k == 0:
            return ("i", self.gen_int())
        if k == 1:
            return ("b", self.gen_bytes())
        if k == 2:
            return ("l", tuple(self.gen_data(d - 1) for _ in range(r.below(3))))
        if k == 3:
            return ("m", tuple((self.gen_data(d - 1), self.gen_data(d - 1)) for _ in range(r.below(3))))
        return ("c", r.pick([0, 0, 1, 1, 2, 3, 7]), tuple(self.gen_data(d - 1) for _ in range(r.below(3))))

    def gen_value(self, ty, d=3):
        r = self.rng
        k = ty[0]
        if k == "Int":
            return self.gen_int()
        if k == "Bool":
            return r.chance(1, 2)
        if k == "Bytes":
            return self.gen_bytes()
        if k == "String":
            return "".join(r.pick(ASCII) for _ in range(r.below(5)))
        if k == "Void":
            return None
        if k == "Data":
            if r.chance(1, 2):
                t = self.gen_type(1, True)
                if t != DATA:
                    return M.to_data(self.gen_value(t, d - 1), t, self.adt_tab)
            return self.gen_data(max(d - 1, 0))
        if k == "List":
            n = 0 if d <= 0 else self.choose([(3, 0), (4, 1), (4, 2), (3, 3), (1, 5)])
            return [self.gen_value(ty[1], d - 1) for _ in range(n)]
        if k == "Tuple":
            return tuple(self.gen_value(t, d - 1) for t in ty[1:])
        if k == "Pair":
            return VPair(self.gen_value(ty[1], d - 1), self.gen_value(ty[2], d - 1))
        if k == "Adt":
            decl = self.adt_tab[ty[1]]
            idxs = list(range(len(decl.ctors)))
            if d <= 1:
                b = self.base_ctors(ty)
                if b:
                    idxs = b
            i = r.pick(idxs)
            return VCon(ty[1], i, [self.gen_value(ft, d - 1) for ft in self.ctor_ftypes(ty, i)])
        raise ValueError("gen_value %r" % (ty,))

    def lit_of(self, v, ty):
        """expression (literals / constructors only) denoting value v of type ty"""
        r = self.rng
        k = ty[0]
        if k == "Int":
            return G.Lit(v, r.pick(STYLE_INT), INT)
        if k == "Bool":
            return G.Lit(v, None, BOOL)
        if k == "Bytes":
            st = "hex"
            if v and all(chr(b) in ASCII for b in v) and r.chance(1, 2):
                st = "str"
            elif v and r.chance(1, 5):
                st = "arr"
            return G.Lit(v, st, BYTES)
        if k == "String":
            return G.Lit(v, None, STRING)
        if k == "Void":
            return G.Lit(None, None, VOID)
        if k == "List":
            return G.ListE([self.lit_of(x, ty[1]) for x in v], None, ty)
        if k == "Tuple":
            return G.TupleE([self.lit_of(x, t) for x, t in zip(v, ty[1:])], ty)
        if k == "Pair":
            return G.PairE(self.lit_of(v.a, ty[1]), self.lit_of(v.b, ty[2]), ty)
        if k == "Adt":
            fts = self.ctor_ftypes(ty, v.idx)
            return G.ConE(ty[1], v.idx, [self.lit_of(x, t) for x, t in zip(v.fields, fts)], self.con_style(ty[1], v.idx), ty)
        if k == "Data":
            return self.data_expr(v)
        raise ValueError("lit_of %r" % (ty,))

    def data_expr(self, d):
        """an expression of type Data (built with builtins) denoting the Data value d"""
        t = d[0]
        self.feat("builtin:data_ctor")
        if t == "i":
            return G.Builtin("i_data", [G.Lit(d[1], "dec", INT)], DATA)
        if t == "b":
            return G.Builtin("b_data", [G.Lit(d[1], "hex", BYTES)], DATA)
        if t == "l":
            return G.Builtin("list_data", [G.ListE([self.data_expr(x) for x in d[1]], None, TList(DATA))], DATA)
        if t == "m":
            pt = TPair(DATA, DATA)
            return G.Builtin("map_data", [G.ListE([G.PairE(self.data_expr(a), self.data_expr(b), pt) for a, b in d[1]], None, TList(pt))], DATA)
        return G.Builtin("constr_data", [G.Lit(d[1], "dec", INT), G.ListE([self.data_expr(x) for x in d[2]], None, TList(DATA))], DATA)

    def con_style(self, adt, idx):
        c = self.adt_tab[adt].ctors[idx]
        if c.fields and c.fields[0][0] is not None and self.rng.chance(2, 3):
            return "rec"
        return "pos"

    # ---------------------------------------------------------------- patterns
    def gen_pattern(self, ty, d, binds, allow_vars=True, top=False):
        """random pattern for type ty; binds accumulates (name, ty)"""
        r = self.rng
        k = ty[0]

        def var():
            if not allow_vars:
                return G.PWild(ty)
            n = self.fresh("p")
            binds.append((n, ty))
            return G.PVar(n, ty)

        def catch():
            return var() if r.chance(3, 5) else G.PWild(ty)

        structured = k in ("Int", "Bytes", "Bool", "Void", "List", "Tuple", "Pair", "Adt")
        if not structured or d <= 0 or r.chance(1, 6 if top else 3):
            return catch()
        if k == "Int":
            p = G.PInt(r.pick([0, 0, 1, 1, 2, -1, 3, 7, 255, 2**64]))
        elif k == "Bytes":
            b = r.pick([b"", b"\x00", b"foo", b"\xff\x00", b"a"])
            p = G.PBytes(b, "str" if b and all(chr(x) in ASCII + "fo" for x in b) and r.chance(1, 2) else "hex")
        elif k == "Bool":
            p = G.PBool(r.chance(1, 2))
        elif k == "Void":
            p = G.PVoid()
        elif k == "Tuple":
            p = G.PTuple([self.gen_pattern(t, d - 1, binds, allow_vars) for t in ty[1:]], ty)
        elif k == "Pair":
            p = G.PPair(self.gen_pattern(ty[1], d - 1, binds, allow_vars), self.gen_pattern(ty[2], d - 1, binds, allow_vars), ty)
        elif k == "List":
            n = self.choose([(4, 0), (5, 1), (3, 2), (1, 3)])
            elems = [self.gen_pattern(ty[1], d - 1, binds, allow_vars) for _ in range(n)]
            if n == 0:
                tail = None
            else:
                tk = self.choose([(3, "none"), (3, "discard"), (5, "var")])
                if tk == "none":
                    tail = None
                elif tk == "discard" or not allow_vars:
                    tail = "discard"
                else:
                    nm = self.fresh("p")
                    binds.append((nm, ty))
                    tail = G.PVar(nm, ty)
            p = G.PList(elems, tail, ty)
        else:
            decl = self.adt_tab[ty[1]]
            idx = r.below(len(decl.ctors))
            p = self.con_pattern(ty, idx, d, binds, allow_vars)
        if allow_vars and p.K in ("PCon", "PTuple", "PList", "PPair") and r.chance(1, 10):
            n = self.fresh("p")
            binds.append((n, ty))
            self.feat("pat:as")
            p = G.PAs(p, n, ty)
        return p

    def con_pattern(self, ty, idx, d, binds, allow_vars, wild=False):
        r = self.rng
        decl = self.adt_tab[ty[1]]
        ctor = decl.ctors[idx]
        fts = self.ctor_ftypes(ty, idx)
        n = len(fts)
        if n == 0:
            return G.PCon(ty[1], idx, [], False, "pos", ty)
        labelled = ctor.fields[0][0] is not None
        style = "pos"
        if labelled and r.chance(3, 4):
            style = "pun" if r.chance(1, 2) else "rec"
        if wild:
            subs = [G.PWild(t) for t in fts]
        else:
            subs = [self.gen_pattern(t, d - 1, binds, allow_vars) for t in fts]
        fields = list(enumerate(subs))
        spread = False
        if style == "pos":
            # positional with spread: keep a prefix
            if r.chance(1, 5) or (wild and r.chance(1, 2)):
                keep = r.below(n + 1) if not wild else 0
                dropped = fields[keep:]
                if all(sp.K == "PWild" for _i, sp in dropped) and keep < n:
                    fields = fields[:keep]
                    spread = True
        else:
            if style == "pun":
                # rename variables to their field label when possible
                used = set(b for b, _t in binds)
                for j, (i, sp) in enumerate(fields):
                    label = ctor.fields[i][0]
                    if label in self.bound_labels:
                        # re-binding a name that is visible elsewhere in the function: FINDINGS.md F4
                        # (a clause pattern shadowing a variable used by a sibling clause crashes the compiler)
                        if not self.opts.get("include_known"):
                            continue
                        self.feat("known:F4_clause_shadowing")
                    if sp.K == "PVar" and label not in used:
                        self.bound_labels.add(label)
                        for bi, (bn, bt) in enumerate(binds):
                            if bn == sp.name:
                                binds[bi] = (label, bt)
                        used.add(label)
                        fields[j] = (i, G.PVar(label, sp.ty))
            kept = [(i, sp) for i, sp in fields if sp.K != "PWild" or r.chance(1, 2)]
            if len(kept) < n:
                spread = True
                fields = kept
        if spread:
            self.feat("pat:spread_fields")
        return G.PCon(ty[1], idx, fields, spread, style, ty)

    def top_ctor_patterns(self, ty):
        """one wildcard-argument pattern per top-level constructor (None for infinite types)"""
        k = ty[0]
        if k == "Bool":
            return [G.PBool(False), G.PBool(True)]
        if k == "Void":
            return [G.PVoid()]
        if k == "Tuple":
            return [G.PTuple([G.PWild(t) for t in ty[1:]], ty)]
        if k == "Pair":
            return [G.PPair(G.PWild(ty[1]), G.PWild(ty[2]), ty)]
        if k == "List":
            return [G.PList([], None, ty), G.PList([G.PWild(ty[1])], "discard", ty)]
        if k == "Adt":
            decl = self.adt_tab[ty[1]]
            return [self.con_pattern(ty, i, 0, [], False, wild=True) for i in range(len(decl.ctors))]
        return None

    def gen_clauses(self, ty, d_pat=None, max_clauses=None):
        if d_pat is None:
            d_pat = 3 if ty[0] == "Tuple" else 2
        if max_clauses is None:
            max_clauses = 6 if ty[0] == "Tuple" else 4
        return self.gen_clauses0(ty, d_pat, max_clauses)

    def gen_clauses0(self, ty, d_pat=2, max_clauses=4):
        """-> [([alts], binds)] exhaustive and non-redundant for type ty"""
        r = self.rng
        rows = []
        clauses = []
        attempts = r.range(1, max_clauses)
        for _ in range(attempts):
            binds = []
            use_alt = r.chance(1, 8)
            p = self.gen_pattern(ty, d_pat, binds, allow_vars=not use_alt, top=True)
            np = [pats.norm(p, self.adt_tab)]
            if not pats.useful(rows, np):
                continue
            if self.known_hazard(clauses, p):
                continue
            alts = [p]
            rows.append(np)
            if use_alt:
                p2 = self.gen_pattern(ty, d_pat, [], allow_vars=False, top=True)
                np2 = [pats.norm(p2, self.adt_tab)]
                if pats.useful(rows, np2) and not self.known_hazard(clauses + [([p], [])], p2):
                    alts.append(p2)
                    rows.append(np2)
                    self.feat("pat:alternative")
            clauses.append((alts, binds))
            if pats.exhaustive(rows):
                break
        guard = 0
        while not pats.exhaustive(rows):
            guard += 1
            tops = self.top_ctor_patterns(ty)
            if tops is None or r.chance(1, 3) or guard > 6:
                binds = []
                if r.chance(1, 2):
                    n = self.fresh("p")
                    binds.append((n, ty))
                    p = G.PVar(n, ty)
                else:
                    p = G.PWild(ty)
                clauses.append(([p], binds))
                rows.append([pats.W])
                break
            added = False
            for p in r.shuffle(tops):
                np = [pats.norm(p, self.adt_tab)]
                if pats.useful(rows, np) and not self.known_hazard(clauses, p):
                    clauses.append(([p], []))
                    rows.append(np)
                    added = True
                    break
            if not added:
                guard = 100
        return clauses

    def known_hazard(self, clauses, p):
        """would adding pattern p after `clauses` form a shape that triggers a recorded compiler finding?
        (FINDINGS.md F2: a list pattern with a tail that is shorter than an earlier list pattern with a tail)"""
        hit = any(pats.list_tail_order_hazard(q, p) for alts, _b in clauses for q in alts)
        if hit:
            if self.opts.get("include_known"):
                self.feat("known:F2_list_tail_order")
                return False
            return True
        return False

    def irrefutable_pattern(self, ty, binds, d=2):
        """destructuring pattern that always matches (tuples, pairs, single-constructor ADTs)"""
        r = self.rng
        k = ty[0]

        def var():
            n = self.fresh("p")
            binds.append((n, ty))
            return G.PVar(n, ty)

        if d <= 0:
            return var()
        if k == "Tuple":
            return G.PTuple([self.irrefutable_pattern(t, binds, d - 1) if r.chance(2, 3) else G.PWild(t) for t in ty[1:]], ty)
        if k == "Pair":
            return G.PPair(self.irrefutable_pattern(ty[1], binds, d - 1), self.irrefutable_pattern(ty[2], binds, d - 1) if r.chance(2, 3) else G.PWild(ty[2]), ty)
        if k == "Adt" and len(self.adt_tab[ty[1]].ctors) == 1 and self.adt_tab[ty[1]].ctors[0].fields:
            fts = self.ctor_ftypes(ty, 0)
            ctor = self.adt_tab[ty[1]].ctors[0]
            labelled = ctor.fields[0][0] is not None
            subs = [(i, self.irrefutable_pattern(t, binds, d - 1)) for i, t in enumerate(fts)]
            style = "rec" if labelled and r.chance(1, 2) else "pos"
            return G.PCon(ty[1], 0, subs, False, style, ty)
        return var()

    def destructurable(self, ty):
        k = ty[0]
        return k in ("Tuple", "Pair") or (k == "Adt" and len(self.adt_tab[ty[1]].ctors) == 1 and len(self.adt_tab[ty[1]].ctors[0].fields) > 0)

    def matchable(self, ty):
        return ty[0] in ("Int", "Bytes", "Bool", "List", "Tuple", "Pair", "Adt", "Void")

    # ---------------------------------------------------------------- expressions
    def eqable(self, t):
        k = t[0]
        if k in ("Fn", "String"):
            return False
        if k == "Var":
            return True
        if k == "List":
            return self.eqable(t[1])
        if k == "Tuple":
            return all(self.eqable(x) for x in t[1:])
        if k == "Pair":
            return self.eqable(t[1]) and self.eqable(t[2])
        if k == "Adt":
            return all(self.eqable(x) for x in t[2])
        return True

    def has_tvar(self, t):
        return bool(G.tvars_of(t))

    def local_type(self, d=1, ser=False):
        """a type for an intermediate value: prefer types of variables in scope / pool"""
        return self.gen_type(d, ser)

    def leaf(self, ty, sc):
        r = self.rng
        k = ty[0]
        vs = sc.of_type(ty)
        if vs and r.chance(3, 4):
            n, t, _h = r.pick(vs)
            return G.Var(n, t)
        cs = [c for c in self.consts if c.ty == ty]
        if cs and r.chance(1, 3):
            self.feat("const_use")
            c = r.pick(cs)
            return G.Var(c.name, c.ty)
        if k == "Fn":
            return self.fn_value(ty, sc, 0)
        if k == "Var":
            if vs:
                n, t, _h = r.pick(vs)
                return G.Var(n, t)
            for n, t, _h in sc.visible():
                if t[0] == "Fn" and t[2] == ty and all(sc.of_type(a) for a in t[1]):
                    return G.Call(G.Var(n, t), [G.Var(sc.of_type(a)[0][0], a) for a in t[1]], "plain", ty)
            self.feat("fail")
            return G.Fail(None, ty)
        if self.has_tvar(ty):
            return self.construct(ty, sc, 0)
        if k == "Data":
            return self.data_leaf(sc)
        return self.lit_of(self.gen_value(ty, 1), ty)

    def has_pair_list(self, t):
        k = t[0]
        if k == "List":
            return t[1][0] == "Pair" or self.has_pair_list(t[1])
        if k in ("Tuple", "Pair"):
            return any(self.has_pair_list(x) for x in t[1:])
        if k == "Adt":
            return any(self.has_pair_list(x) for x in t[2])
        return False

    def upcast(self, name, e):
        """`let name: Data = e  name`. When the Data encoding depends on a type the expression alone may not
        determine (an empty `List<Pair<..>>` is a Map, an empty list of an unknown type is a List), the value is
        first bound with its full type annotation."""
        if self.has_pair_list(e.ty) and e.K != "Var":
            t = self.fresh("v")
            return G.Let(G.PVar(t, e.ty), e.ty, e, G.Let(G.PVar(name, DATA), DATA, G.Var(t, e.ty), G.Var(name, DATA), DATA), DATA)
        return G.Let(G.PVar(name, DATA), DATA, e, G.Var(name, DATA), DATA)

    def data_leaf(self, sc):
        r = self.rng
        if r.chance(1, 2):
            return self.data_expr(self.gen_data(1))
        t = self.gen_type(1, True)
        if t == DATA:
            t = INT
        n = self.fresh("d")
        self.feat("upcast")
        return self.upcast(n, self.leaf(t, sc))

    def expr(self, ty, sc, d):
        self.nodes_left -= 1
        if d <= 0 or self.nodes_left <= 0:
            return self.leaf(ty, sc)
        r = self.rng
        k = ty[0]
        c = []
        vs = sc.of_type(ty)
        if vs:
            c.append((5, lambda: self.leaf(ty, sc)))
        if k == "Fn":
            return self.fn_value(ty, sc, d)
        c.append((4 if k in ("Int", "Bool", "Bytes") else 8, lambda: self.construct(ty, sc, d)))
        c.append((3, lambda: self.gen_if(ty, sc, d)))
        c.append((5, lambda: self.gen_when(ty, sc, d)))
        c.append((5, lambda: self.gen_let(ty, sc, d)))
        c.append((2, lambda: self.gen_expect(ty, sc, d)))
        calls = self.call_candidates(ty, sc)
        if calls:
            c.append((7, lambda: self.gen_call(ty, sc, d, calls)))
        sp = [s for s in sc.specials if s[0] == ty]
        if sp:
            c.append((6, lambda: r.pick(sp)[1](self, sc, d)))
        acc = self.access_candidates(ty, sc)
        if acc:
            c.append((4, lambda: self.gen_access(ty, sc, d, acc)))
        elif d >= 2 and not self.has_tvar(ty) and G.serialisable(ty):
            c.append((1, lambda: self.gen_access_fresh(ty, sc, d)))
        bp = self.backpass_candidates(ty, sc)
        if bp:
            c.append((2, lambda: self.gen_backpass(ty, sc, d, bp)))
        if self.abortiness > 0 and r.chance(1, 5):
            c.append((1, lambda: self.gen_fail(ty)))
        if d >= 2 and k not in ("Fn", "String") and r.chance(1, 4):
            c.append((1, lambda: self.gen_head(ty, sc, d)))
        c.append((1, lambda: self.gen_trace(ty, sc, d)))
        if k == "Int":
            c.append((12, lambda: self.gen_arith(sc, d)))
            c.append((2, lambda: self.gen_builtin(ty, sc, d)))
        elif k == "Bool":
            c.append((10, lambda: self.gen_bool(sc, d)))
            c.append((1, lambda: self.gen_builtin(ty, sc, d)))
        elif k == "Bytes":
            c.append((5, lambda: self.gen_builtin(ty, sc, d)))
        elif k == "Data":
            c.append((6, lambda: self.gen_data_expr(sc, d)))
        elif k == "List":
            c.append((1, lambda: self.gen_builtin(ty, sc, d)))
        elif ty == TPair(INT, TList(DATA)):
            c.append((3, lambda: self.gen_builtin(ty, sc, d)))
        elif k == "String":
            pass
        return self.choose(c)()

    # -- construction -------------------------------------------------------
    def construct(self, ty, sc, d):
        r = self.rng
        k = ty[0]
        if k in ("Int", "Bool", "Bytes", "String", "Void"):
            return self.lit_of(self.gen_value(ty, 1), ty)
        if k == "Data":
            return self.gen_data_expr(sc, d)
        if k == "Var":
            return self.leaf(ty, sc)
        if k == "Fn":
            return self.fn_value(ty, sc, d)
        if k == "List":
            n = 0 if d <= 0 else self.choose([(2, 0), (4, 1), (4, 2), (2, 3)])
            elems = [self.expr(ty[1], sc, d - 1) for _ in range(n)]
            tail = None
            if n > 0 and d > 0 and r.chance(1, 3):
                tail = self.expr(ty, sc, d - 1)
                self.feat("list:spread_expr")
            self.feat("list:literal")
            return G.ListE(elems, tail, ty)
        if k == "Tuple":
            self.feat("tuple:literal")
            return G.TupleE([self.expr(t, sc, d - 1) for t in ty[1:]], ty)
        if k == "Pair":
            self.feat("pair:literal")
            return G.PairE(self.expr(ty[1], sc, d - 1), self.expr(ty[2], sc, d - 1), ty)
        if k == "Adt":
            decl = self.adt_tab[ty[1]]
            idxs = list(range(len(decl.ctors)))
            if d <= 1:
                b = self.base_ctors(ty)
                if b:
                    idxs = b
            i = r.pick(idxs)
            fts = self.ctor_ftypes(ty, i)
            # record update instead of a plain construction
            if fts and decl.ctors[i].fields[0][0] is not None and len(decl.ctors) == 1 and d >= 1 and r.chance(1, 3):
                base = self.expr(ty, sc, d - 1)
                nupd = r.range(1, len(fts))
                which = sorted(r.shuffle(list(range(len(fts))))[:nupd])
                ups = [(decl.ctors[i].fields[j][0], j, self.expr(fts[j], sc, d - 1)) for j in which]
                self.feat("record:update")
                if base.K != "Var":
                    v = self.fresh("v")
                    return G.Let(G.PVar(v, ty), ty, base, G.RecUpd(ty[1], i, G.Var(v, ty), ups, ty), ty)
                return G.RecUpd(ty[1], i, base, ups, ty)
            self.feat("adt:construct")
            if decl.tparams:
                self.feat("adt:generic")
            return G.ConE(ty[1], i, [self.expr(t, sc, d - 1) for t in fts], self.con_style(ty[1], i), ty)
        raise ValueError(ty)

    def gen_data_expr(self, sc, d):
        r = self.rng
        ch = r.below(10)
        if ch < 5 or d <= 0:
            # up-cast of a serialisable value
            t = self.gen_type(1, True)
            if t == DATA:
                t = INT
            n = self.fresh("d")
            self.feat("upcast")
            return self.upcast(n, self.expr(t, sc, d - 1))
        if ch < 7:
            self.feat("builtin:i_data")
            return G.Builtin("i_data", [self.expr(INT, sc, d - 1)], DATA)
        if ch < 8:
            self.feat("builtin:b_data")
            return G.Builtin("b_data", [self.expr(BYTES, sc, d - 1)], DATA)
        if ch < 9:
            self.feat("builtin:list_data")
            return G.Builtin("list_data", [self.expr(TList(DATA), sc, d - 1)], DATA)
        self.feat("builtin:constr_data")
        return G.Builtin("constr_data", [G.Lit(r.pick([0, 1, 2, 5]), "dec", INT), self.expr(TList(DATA), sc, d - 1)], DATA)

    # -- control ---------------------------------------------------------------
    def gen_if(self, ty, sc, d):
        r = self.rng
        # soft cast on Data
        dvs = sc.of_type(DATA)
        if dvs and r.chance(1, 2):
            n, t, h = r.pick(dvs)
            ct = h if (h is not None and r.chance(3, 4)) else self.gen_type(1, True)
            if ct != DATA:
                binds = []
                if r.chance(1, 2):
                    pn = self.fresh("p")
                    binds.append((pn, ct))
                    pat = G.PVar(pn, ct)
                else:
                    pat = self.gen_pattern(ct, 2, binds, True, top=True)
                    if pat.K in ("PWild", "PInt", "PBytes", "PBool", "PVoid", "PAs"):
                        binds = []
                        pn = self.fresh("p")
                        binds.append((pn, ct))
                        pat = G.PVar(pn, ct)
                self.feat("if_is")
                return G.IfIs(G.Var(n, DATA), pat, ct, self.expr(ty, sc.extend(binds), d - 1), self.expr(ty, sc, d - 1), ty)
        nb = self.choose([(5, 1), (2, 2), (1, 3)])
        branches = [(self.expr(BOOL, sc, d - 1), self.expr(ty, sc, d - 1)) for _ in range(nb)]
        self.feat("if")
        if nb > 1:
            self.feat("else_if")
        return G.If(branches, self.expr(ty, sc, d - 1), ty)

    def pick_subject(self, sc, d, want=None):
        """an expression worth matching on: prefer visible variables of matchable types"""
        r = self.rng
        vs = [(n, t, h) for n, t, h in sc.visible() if self.matchable(t) and (want is None or want(t))]
        mv = [(n, t) for n, t, _h in sc.visible() if self.matchable(t) and t != VOID]
        if len(mv) >= 2 and r.chance(1, 4):
            # several columns at once: `when (a, b, ..) is { .. }`
            pick = r.shuffle(mv)[: r.range(2, min(3, len(mv)))]
            t = TTuple(*[pt for _n, pt in pick])
            if want is None or want(t):
                self.feat("when:multi_column")
                return G.TupleE([G.Var(n, pt) for n, pt in pick], t)
        if vs and r.chance(4, 5):
            # favour structured types
            st = [v for v in vs if v[1][0] in ("List", "Adt", "Tuple", "Pair")]
            n, t, _h = r.pick(st if st and r.chance(3, 4) else vs)
            return G.Var(n, t)
        for _ in range(5):
            t = self.gen_type(2, True)
            if self.matchable(t) and (want is None or want(t)):
                e = self.expr(t, sc, d - 1)
                if e.K not in ("Fail", "Todo"):  # `when fail is { p -> p.field }`: the subject's type would be unknown
                    return e
        e = self.expr(INT, sc, d - 1)
        return e if e.K not in ("Fail", "Todo") else G.Lit(0, "dec", INT)

    def gen_when(self, ty, sc, d):
        subj = self.pick_subject(sc, d)
        clauses = self.gen_clauses(subj.ty)
        out = []
        for alts, binds in clauses:
            out.append((alts, self.expr(ty, sc.extend(binds), d - 1)))
        if A.may_abort(subj) and not A.binding_forced(out[0][0][0], out[0][1]):
            # the subject would only be needed lazily (FINDINGS.md F1): match on something that cannot abort
            if self.allow_hazard:
                self.feat("hazard:lazy_when_subject")
                self.feat("known:call-by-need")
            else:
                vs = sc.of_type(subj.ty)
                if vs:
                    subj = G.Var(vs[0][0], subj.ty)
                elif not self.has_tvar(subj.ty) and not self.contains_data(subj.ty) and not G.has_fn(subj.ty):
                    subj = self.lit_of(self.gen_value(subj.ty, 2), subj.ty)
                else:
                    return out[-1][1] if not any(A.occurs(n, out[-1][1]) for n, _t in clauses[-1][1]) else self.leaf(ty, sc)
        self.feat("when")
        self.feat("when:" + subj.ty[0])
        if len(out) > 1:
            self.feat("when:multi_clause")
        return G.When(subj, out, ty)

    def ensure_strict(self, name, vty, rhs, body, sc, d):
        """body for `let name = rhs` such that the binding is used, and used strictly when rhs can abort"""
        if not A.occurs(name, body):
            return None
        if not A.may_abort(rhs) or A.strict_occ(name, body):
            return body
        if self.allow_hazard:
            self.feat("hazard:lazy_let")
            self.feat("known:call-by-need")
            return body
        return None

    def strict_user(self, name, vty, ty, sc, d):
        """an expression of type ty that certainly evaluates Var(name)"""
        r = self.rng
        v = G.Var(name, vty)
        if vty == ty and r.chance(1, 3):
            return v
        if self.matchable(vty) and vty[0] not in ("Void",) and r.chance(2, 3):
            clauses = self.gen_clauses(vty)
            w = G.When(v, [(alts, self.expr(ty, sc.extend(binds), d - 1)) for alts, binds in clauses], ty)
            if A.strict_occ(name, w):
                self.feat("when")
                return w
        if self.eqable(vty):
            cond = G.Bin(self.rng.pick(["==", "!="]), v, self.expr(vty, sc, max(d - 2, 0)), BOOL)
            self.feat("eq:" + vty[0])
            return G.If([(cond, self.expr(ty, sc, d - 1))], self.expr(ty, sc, d - 1), ty)
        return None

    def gen_let(self, ty, sc, d):
        r = self.rng
        # destructuring let
        if r.chance(1, 4):
            vs = [(n, t) for n, t, _h in sc.visible() if self.destructurable(t)]
            if vs or r.chance(1, 2):
                if vs and r.chance(3, 4):
                    n, t = r.pick(vs)
                    rhs = G.Var(n, t)
                else:
                    t = None
                    for _ in range(6):
                        t = self.gen_type(2, False)
                        if self.destructurable(t):
                            break
                    if t is None or not self.destructurable(t):
                        t = TTuple(INT, self.gen_type(1, False))
                    rhs = self.expr(t, sc, d - 1)
                binds = []
                pat = self.irrefutable_pattern(t, binds)
                if binds and pat.K != "PVar":
                    body = self.expr(ty, sc.extend(binds), d - 1)
                    used = [b for b, _t in binds if A.occurs(b, body)]
                    ok = bool(used) and (not A.may_abort(rhs) or any(A.strict_occ(b, body) for b in used) or self.allow_hazard)
                    if ok:
                        self.feat("let:destructure")
                        return G.Let(pat, None, rhs, body, ty)
                    if not used:
                        return body
                    return self.expr(ty, sc, d - 1)
        vty = self.gen_type(2, False) if r.chance(3, 4) else TFn([self.gen_type(1, False)], self.gen_type(1, False))
        fn_rets = [f.ret for f in self.callable if f.ret[0] == "Fn" and not f.tparams]
        if fn_rets and r.chance(1, 6):
            vty = r.pick(fn_rets)
        rhs = self.expr(vty, sc, d - 1)
        name = self.var_name(sc)
        sc2 = sc.extend([(name, vty)])
        annot = vty if ((r.chance(1, 8) or vty[0] in ("Tuple", "Pair", "Adt")) and vty[0] != "Fn" and not self.has_tvar(vty)) else None
        for attempt in range(3):
            body = self.expr(ty, sc2, d - 1)
            body = self.ensure_strict(name, vty, rhs, body, sc2, d)
            if body is not None:
                self.feat("let")
                if vty[0] == "Fn":
                    self.feat("let:lambda")
                return G.Let(G.PVar(name, vty), annot, rhs, body, ty)
        body = self.strict_user(name, vty, ty, sc2, d)
        if body is not None:
            self.feat("let")
            return G.Let(G.PVar(name, vty), annot, rhs, body, ty)
        return self.expr(ty, sc, d - 1)

    def gen_expect(self, ty, sc, d):
        r = self.rng
        ch = r.below(10)
        dvs = sc.of_type(DATA)
        if ch < 4 and (dvs or r.chance(1, 2)):
            # checked down-cast from Data
            if dvs and r.chance(4, 5):
                n, _t, h = r.pick(dvs)
                rhs = G.Var(n, DATA)
                ct = h if (h is not None and r.chance(4, 5)) else self.gen_type(2, True)
            else:
                st = self.gen_type(2, True)
                if st == DATA:
                    st = INT
                ct = st if r.chance(3, 4) else self.gen_type(2, True)
                dn = self.fresh("d")
                rhs = self.upcast(dn, self.expr(st, sc, d - 1))
                self.feat("upcast")
            if ct == DATA:
                ct = INT
            binds = []
            if r.chance(3, 4):
                pn = self.fresh("v")
                binds.append((pn, ct))
                pat = G.PVar(pn, ct)
            else:
                pat = self.gen_pattern(ct, 2, binds, True, top=True)
                if pat.K == "PWild":
                    pat = G.PVar(self.fresh("v"), ct)
                    binds = [(pat.name, ct)]
            self.feat("expect:downcast")
            self.feat("downcast:" + ct[0])
            sc2 = sc.extend(binds)
            node = G.Expect(pat, ct, rhs, self.expr(ty, sc2, d - 1), ty)
            hz = A.lazy_cast_hazard(node)
            if hz:
                # FINDINGS.md F10 / F11: a cast to a primitive type is only performed when its variable is needed,
                # and an Int / ByteArray cast is only noticed when the value is consumed as such
                if self.allow_hazard:
                    self.feat("known:" + hz)
                    return node
                for _ in range(2):
                    node.body = self.expr(ty, sc2, d - 1)
                    if not A.lazy_cast_hazard(node):
                        return node
                for _ in range(3):
                    b = self.strict_user(pat.name, ct, ty, sc2, d) if pat.K == "PVar" else None
                    if b is None:
                        break
                    node.body = b
                    if not A.lazy_cast_hazard(node):
                        return node
                node.body = self.expr(ty, sc, d - 1)  # the variable is not used at all: the cast is still performed
            return node
        if ch < 6:
            self.feat("expect:bool")
            return G.ExpectBool(self.expr(BOOL, sc, d - 1), self.expr(ty, sc, d - 1), ty)
        # refutable pattern
        subj = self.pick_subject(sc, d, want=lambda t: t[0] in ("List", "Adt", "Tuple", "Pair", "Int", "Bool") and t != VOID)
        for _ in range(6):
            binds = []
            pat = self.gen_pattern(subj.ty, 2, binds, True, top=True)
            if pat.K in ("PVar", "PWild"):
                continue
            if pats.irrefutable(pat, self.adt_tab):
                continue
            self.feat("expect:pattern")
            return G.Expect(pat, None, subj, self.expr(ty, sc.extend(binds), d - 1), ty)
        return self.expr(ty, sc, d - 1)

    def gen_fail(self, ty):
        r = self.rng
        ch = r.below(4)
        if ch == 0:
            self.feat("todo")
            return G.Todo(r.pick(MSGS) if r.chance(1, 2) else None, ty)
        self.feat("fail")
        return G.Fail(r.pick(MSGS) if r.chance(1, 2) else None, ty)

    def gen_trace(self, ty, sc, d):
        self.feat("trace")
        return G.Trace(self.rng.pick(MSGS), self.expr(ty, sc, d - 1), ty)

    # -- operators ---------------------------------------------------------------
    def gen_arith(self, sc, d):
        r = self.rng
        op = self.choose([(6, "+"), (5, "-"), (4, "*"), (3, "/"), (3, "%"), (1, "neg")])
        if op == "neg":
            self.feat("op:neg")
            return G.Un("-", self.expr(INT, sc, d - 1), INT)
        self.feat("op:" + op)
        l = self.expr(INT, sc, d - 1)
        if op in ("/", "%") and r.chance(1, 2):
            # mostly non-zero literal divisors (both signs), to see the floor semantics rather than aborts
            rr = G.Lit(r.pick([2, 3, -2, -3, 7, -7, 10, 1, -1, 2**64]), "dec", INT)
        else:
            rr = self.expr(INT, sc, d - 1)
        return G.Bin(op, l, rr, INT)

    def is_const_false(self, e):
        n = 0
        while e.K == "Var" and n < 10:
            cs = [c for c in self.consts if c.name == e.name]
            if not cs:
                break
            e = cs[0].expr
            n += 1
        return e.K == "Lit" and e.val is False

    def gen_bool(self, sc, d):
        r = self.rng
        ch = self.choose([(6, "cmp"), (5, "eq"), (4, "and"), (4, "or"), (2, "not"), (2, "chain"), (1, "tif"), (4, "guard")])
        if ch == "guard":
            return self.gen_guard(sc, d)
        if ch == "cmp":
            op = r.pick(["<", "<=", ">", ">="])
            self.feat("op:" + op)
            return G.Bin(op, self.expr(INT, sc, d - 1), self.expr(INT, sc, d - 1), BOOL)
        if ch == "eq":
            # prefer the type of a visible variable
            vs = [(n, t) for n, t, _h in sc.visible() if self.eqable(t)]
            if vs and r.chance(2, 3):
                t = r.pick(vs)[1]
            else:
                t = self.gen_type(2, True)
            svs = sc.of_type(STRING)
            if svs and r.chance(1, 2):
                t = STRING
            op = r.pick(["==", "==", "!="])
            self.feat("op:" + op)
            self.feat("eq:" + t[0])
            return G.Bin(op, self.expr(t, sc, d - 1), self.expr(t, sc, d - 1), BOOL)
        if ch == "and":
            self.feat("op:&&")
            l, rr = self.expr(BOOL, sc, d - 1), self.expr(BOOL, sc, d - 1)
            if self.is_const_false(rr):
                # FINDINGS.md F6: `x && False` is rewritten to False without evaluating x
                if self.opts.get("include_known"):
                    self.feat("known:F6_and_false")
                else:
                    rr = G.Lit(True, None, BOOL)
            return G.Bin("&&", l, rr, BOOL)
        if ch == "or":
            self.feat("op:||")
            return G.Bin("||", self.expr(BOOL, sc, d - 1), self.expr(BOOL, sc, d - 1), BOOL)
        if ch == "not":
            self.feat("op:!")
            return G.Un("!", self.expr(BOOL, sc, d - 1), BOOL)
        if ch == "chain":
            kind = r.pick(["and", "or"])
            self.feat("chain:" + kind)
            es = [self.expr(BOOL, sc, d - 1) for _ in range(r.range(2, 3))]
            if kind == "and" and not self.opts.get("include_known"):
                for i in range(1, len(es)):
                    if self.is_const_false(es[i]):
                        es[i] = G.Lit(True, None, BOOL)
            return G.Chain(kind, es, BOOL)
        self.feat("trace_if_false")
        return G.TraceIfFalse(self.expr(BOOL, sc, d - 1), BOOL)

    def gen_guard(self, sc, d):
        """short-circuit idioms whose right operand aborts exactly when the left one decides:
        `a != 0 && c / a > e`, `a == 0 || ..`, `xs != [] && head(xs) ..`, `and { .. }` / `or { .. }` variants"""
        r = self.rng
        ivs = sc.of_type(INT)
        lvs = [(n, t) for n, t, _h in sc.visible() if t[0] == "List" and self.eqable(t) and not self.has_tvar(t)]
        ovs = [(n, t) for n, t, _h in sc.visible() if t[0] == "Adt" and t[1] == "Option"]
        kinds = []
        if ivs:
            kinds.append("int")
        if lvs:
            kinds.append("list")
        if ovs:
            kinds.append("opt")
        if not kinds:
            kinds = ["int"]
        kind = r.pick(kinds)
        conj = r.chance(1, 2)
        if kind == "int":
            a = G.Var(r.pick(ivs)[0], INT) if ivs else self.expr(INT, sc, d - 1)
            if a.K != "Var":
                n = self.fresh("v")
                inner = self.gen_guard(sc.extend([(n, INT)]), d - 1) if d > 1 else G.Lit(True, None, BOOL)
                if not A.occurs(n, inner):
                    return inner
                return G.Let(G.PVar(n, INT), None, a, inner, BOOL) if A.strict_occ(n, inner) or not A.may_abort(a) else inner
            left = G.Bin("!=" if conj else "==", a, G.Lit(0, "dec", INT), BOOL)
            right = G.Bin(r.pick(["<", ">", "==", ">="]), G.Bin(r.pick(["/", "%"]), self.expr(INT, sc, d - 1), a, INT), self.expr(INT, sc, max(d - 2, 0)), BOOL)
        elif kind == "list":
            n, t = r.pick(lvs)
            v = G.Var(n, t)
            if r.chance(1, 2):
                left = G.Bin("!=" if conj else "==", v, G.ListE([], None, t), BOOL)
            else:
                nl = G.Builtin("null_list", [v], BOOL)
                left = G.Un("!", nl, BOOL) if conj else nl
            hd = G.Builtin("head_list", [v], t[1])
            right = G.Bin(r.pick(["==", "!="]), hd, self.expr(t[1], sc, max(d - 2, 0)), BOOL)
        else:
            n, t = r.pick(ovs)
            v = G.Var(n, t)
            left = G.Bin("!=" if conj else "==", v, G.ConE("Option", 1, [], "pos", t), BOOL)
            pn = self.fresh("p")
            it = t[2][0]
            body = self.expr(BOOL, sc.extend([(pn, it)]), max(d - 2, 0))
            right = G.Expect(G.PCon("Option", 0, [(0, G.PVar(pn, it))], False, "pos", t), None, v, body, BOOL)
        self.feat("guard:" + kind)
        form = r.below(3)
        if form == 0:
            self.feat("chain:" + ("and" if conj else "or"))
            extra = [self.expr(BOOL, sc, max(d - 2, 0))] if r.chance(1, 3) else []
            if conj and extra and self.is_const_false(extra[0]) and not self.opts.get("include_known"):
                extra = []  # FINDINGS.md F6
            return G.Chain("and" if conj else "or", [left, right] + extra, BOOL)
        self.feat("op:" + ("&&" if conj else "||"))
        return G.Bin("&&" if conj else "||", left, right, BOOL)

    BUILTIN_SIGS = {
        "Int": [
            ("add_integer", [INT, INT]), ("subtract_integer", [INT, INT]), ("multiply_integer", [INT, INT]),
            ("divide_integer", [INT, INT]), ("mod_integer", [INT, INT]), ("quotient_integer", [INT, INT]),
            ("remainder_integer", [INT, INT]), ("length_of_bytearray", [BYTES]), ("index_bytearray", [BYTES, INT]),
            ("un_i_data", [DATA]), ("bytearray_to_integer", [BOOL, BYTES]), ("head_list", [("List", INT)]),
        ],
        "Bool": [
            ("equals_integer", [INT, INT]), ("less_than_integer", [INT, INT]), ("less_than_equals_integer", [INT, INT]),
            ("equals_bytearray", [BYTES, BYTES]), ("less_than_bytearray", [BYTES, BYTES]),
            ("less_than_equals_bytearray", [BYTES, BYTES]), ("equals_data", [DATA, DATA]), ("null_list", None),
        ],
        "Bytes": [
            ("append_bytearray", [BYTES, BYTES]), ("cons_bytearray", [INT, BYTES]), ("slice_bytearray", [INT, INT, BYTES]),
            ("sha2_256", [BYTES]), ("sha3_256", [BYTES]), ("blake2b_256", [BYTES]), ("blake2b_224", [BYTES]),
            ("un_b_data", [DATA]), ("integer_to_bytearray", [BOOL, INT, INT]), ("replicate_byte", [INT, INT]),
        ],
    }

    def gen_head(self, ty, sc, d):
        self.feat("builtin:head_list")
        return G.Builtin("head_list", [self.expr(TList(ty), sc, d - 1)], ty)

    def gen_builtin(self, ty, sc, d):
        r = self.rng
        k = ty[0]
        if k == "List":
            if ty[1] == DATA and r.chance(1, 2):
                self.feat("builtin:un_list_data")
                return G.Builtin("un_list_data", [G.Builtin("list_data", [self.expr(ty, sc, d - 1)], DATA)], ty)
            if ty[1] == TPair(DATA, DATA) and r.chance(1, 2):
                self.feat("builtin:un_map_data")
                return G.Builtin("un_map_data", [G.Builtin("map_data", [self.expr(ty, sc, d - 1)], DATA)], ty)
            self.feat("builtin:tail_list")
            return G.Builtin("tail_list", [self.expr(ty, sc, d - 1)], ty)
        if k == "Pair":
            self.feat("builtin:un_constr_data")
            return G.Builtin("un_constr_data", [G.Builtin("constr_data", [G.Lit(r.pick([0, 1, 2, 7]), "dec", INT), self.expr(TList(DATA), sc, d - 1)], DATA)], ty)
        name, ats = r.pick(self.BUILTIN_SIGS[k])
        self.feat("builtin:" + name)
        if name == "null_list":
            return G.Builtin(name, [self.expr(TList(self.gen_type(1, True)), sc, d - 1)], BOOL)
        if name == "integer_to_bytearray":
            return G.Builtin(name, [self.expr(BOOL, sc, d - 1), G.Lit(r.pick([0, 0, 1, 2, 4, 8, 32]), "dec", INT), self.expr(INT, sc, d - 1)], BYTES)
        if name in ("un_i_data", "un_b_data"):
            # FINDINGS.md F3: `i_data(un_i_data(x))` is rewritten to `x` (the abort on a non-integer is lost).
            # By default only un-wrap Data that certainly has the right shape.
            if self.opts.get("include_known") and r.chance(1, 2):
                self.feat("known:F3_cast_cancel")
                return G.Builtin(name, [self.expr(DATA, sc, d - 1)], ty)
            inner = G.Builtin("i_data" if name == "un_i_data" else "b_data", [self.expr(ty, sc, d - 1)], DATA)
            return G.Builtin(name, [inner], ty)
        if name == "replicate_byte":
            return G.Builtin(name, [G.Lit(r.pick([0, 1, 2, 3, 5, -1]), "dec", INT), self.expr(INT, sc, d - 1)], BYTES)
        return G.Builtin(name, [self.expr(t, sc, d - 1) for t in ats], ty)

    # -- functions ---------------------------------------------------------------
    def inst_free(self, f, s):
        """bind the type variables of f not yet in s to concrete serialisable types"""
        s = dict(s)
        for tv in f.tparams:
            if tv not in s:
                s[tv] = self.gen_type(1, True)
        return s

    def call_candidates(self, ty, sc):
        out = []
        for f in self.callable:
            s = G.unify(f.ret, ty, {})
            if s is not None:
                out.append(("fn", f, s))
        for n, t, _h in sc.visible():
            if t[0] == "Fn" and t[2] == ty:
                out.append(("var", n, t))
        return out

    def gen_call(self, ty, sc, d, cands):
        r = self.rng
        c = r.pick(cands)
        if c[0] == "var":
            _k, n, t = c
            self.feat("call:local_fn")
            return G.Call(G.Var(n, t), [self.expr(a, sc, d - 1) for a in t[1]], "plain", ty)
        _k, f, s = c
        s = self.inst_free(f, s)
        pts = [G.subst(t, s) for _n, t in f.params]
        args = [self.expr(t, sc, d - 1) for t in pts]
        if not self.allow_hazard:
            # FINDINGS.md F1b: an argument that may abort, passed for a parameter the callee only uses lazily,
            # is not evaluated when the callee gets inlined
            sp = self.strict_params.get(f.name)
            for i, a in enumerate(args):
                if (sp is None or not sp[i]) and A.may_abort(a):
                    args[i] = self.leaf_total(pts[i], sc)
        style = "plain"
        if args and r.chance(1, 4):
            style = "pipe"
            self.feat("pipe")
        self.feat("call")
        if f.tparams:
            self.feat("call:generic")
            self.inst_seen.setdefault(f.name, set()).add(tuple(sorted(s.items())))
        fty = TFn(pts, ty)
        return G.Call(G.Var(f.name, fty), args, style, ty)

    def fn_value(self, ty, sc, d):
        """an expression of function type ty"""
        r = self.rng
        c = []
        vs = sc.of_type(ty)
        if vs:
            c.append((4, lambda: G.Var(r.pick(vs)[0], ty)))
        named = []
        for f in self.callable:
            ft = TFn([t for _n, t in f.params], f.ret)
            s = G.unify(ft, ty, {})
            if s is not None and all(tv in s for tv in f.tparams):
                named.append(f)
        if named:
            def mk_named():
                f = r.pick(named)
                self.feat("fn_as_value")
                return G.Var(f.name, ty)
            c.append((3, mk_named))
        caps = []
        if len(ty[1]) == 1:
            for f in self.callable:
                if len(f.params) >= 2:
                    s0 = G.unify(f.ret, ty[2], {})
                    if s0 is None:
                        continue
                    for i, (_n, pt) in enumerate(f.params):
                        s = G.unify(pt, ty[1][0], s0)
                        if s is not None:
                            caps.append((f, i, s))
        if caps:
            def mk_cap():
                f, i, s = r.pick(caps)
                s = self.inst_free(f, s)
                args = []
                for j, (_n, pt) in enumerate(f.params):
                    if j == i:
                        args.append(None)
                    else:
                        args.append(self.leaf_total(G.subst(pt, s), sc))
                self.feat("capture")
                pts = [G.subst(t, s) for _n, t in f.params]
                return G.Capture(G.Var(f.name, TFn(pts, ty[2])), args, ty)
            c.append((3, mk_cap))

        makers = [f for f in self.callable if f.ret == ty and not f.tparams]
        if makers and d > 0:
            def mk_call():
                f = r.pick(makers)
                self.feat("call:fn_returning_fn")
                pts = [t for _n, t in f.params]
                return G.Call(G.Var(f.name, TFn(pts, ty)), [self.expr(t, sc, d - 1) for t in pts], "plain", ty)
            c.append((5, mk_call))

        def mk_lam():
            params = [(self.fresh("a"), t) for t in ty[1]]
            self.feat("lambda")
            body = self.expr(ty[2], sc.extend(params), max(d - 1, 0))
            free = [n for n, _t, _h in sc.visible() if n not in [p for p, _ in params] and A.occurs(n, body)]
            if free:
                self.feat("lambda:closure")
            return G.Lam(params, body, ty)
        c.append((5, mk_lam))
        return self.choose(c)()

    def leaf_total(self, ty, sc):
        """an atom (variable / literal) that cannot abort (used for capture arguments)"""
        e = self.leaf(ty, sc)
        if A.may_abort(e) or e.K in ("Fail", "Todo"):
            vs = sc.of_type(ty)
            if vs:
                return G.Var(vs[0][0], ty)
            if not self.has_tvar(ty) and ty[0] not in ("Fn", "Data"):
                return self.lit_of(self.gen_value(ty, 1), ty)
            if ty[0] == "Data":
                return self.data_expr(("i", 0))
        return e

    # -- field / element access -----------------------------------------------
    def access_candidates(self, ty, sc):
        out = []
        for n, t, _h in sc.visible():
            k = t[0]
            if k == "Tuple":
                for i, x in enumerate(t[1:]):
                    if x == ty:
                        out.append(("tup", n, t, i))
            elif k == "Pair":
                for i, x in enumerate(t[1:]):
                    if x == ty:
                        out.append(("tup", n, t, i))
            elif k == "Adt":
                decl = self.adt_tab[t[1]]
                if len(decl.ctors) == 1 and decl.ctors[0].fields and decl.ctors[0].fields[0][0] is not None:
                    for i, ft in enumerate(self.ctor_ftypes(t, 0)):
                        if ft == ty:
                            out.append(("field", n, t, i))
        return out

    def gen_access(self, ty, sc, d, cands):
        kind, n, t, i = self.rng.pick(cands)
        if kind == "tup":
            self.feat("access:" + ("pair" if t[0] == "Pair" else "tuple"))
            return G.TupIdx(G.Var(n, t), i, ty)
        self.feat("access:field")
        return G.Field(G.Var(n, t), self.adt_tab[t[1]].ctors[0].fields[i][0], i, ty)

    def gen_access_fresh(self, ty, sc, d):
        """build a tuple / pair / record containing ty, then project"""
        r = self.rng
        recs = []
        for a in self.adts:
            if len(a.ctors) == 1 and a.ctors[0].fields and a.ctors[0].fields[0][0] is not None and not a.tparams:
                for i, (_l, ft) in enumerate(a.ctors[0].fields):
                    if ft == ty:
                        recs.append((a, i))
        if recs and r.chance(1, 2):
            a, i = r.pick(recs)
            t = TAdt(a.name)
            self.feat("access:field")
            v = self.fresh("v")
            return G.Let(G.PVar(v, t), t, self.expr(t, sc, d - 1), G.Field(G.Var(v, t), a.ctors[0].fields[i][0], i, ty), ty)
        if r.chance(1, 4):
            other = self.gen_type(1, True)
            i = r.below(2)
            t = TPair(ty, other) if i == 0 else TPair(other, ty)
            self.feat("access:pair")
            v = self.fresh("v")
            return G.Let(G.PVar(v, t), t, self.expr(t, sc, d - 1), G.TupIdx(G.Var(v, t), i, ty), ty)
        n = r.range(2, 4)
        i = r.below(n)
        ts = [self.gen_type(1, True) for _ in range(n)]
        ts[i] = ty
        self.feat("access:tuple")
        t = TTuple(*ts)
        v = self.fresh("v")
        return G.Let(G.PVar(v, t), t, self.expr(t, sc, d - 1), G.TupIdx(G.Var(v, t), i, ty), ty)

    # -- backpassing ---------------------------------------------------------------
    def backpass_candidates(self, ty, sc):
        out = []
        for f in self.callable:
            if f.params and f.params[-1][1][0] == "Fn":
                s = G.unify(f.ret, ty, {})
                if s is not None:
                    out.append((f, s))
        return out

    def gen_backpass(self, ty, sc, d, cands):
        f, s = self.rng.pick(cands)
        s = self.inst_free(f, s)
        pts = [G.subst(t, s) for _n, t in f.params]
        kt = pts[-1]
        args = [self.expr(t, sc, d - 1) for t in pts[:-1]]
        params = [(self.fresh("b"), t) for t in kt[1]]
        body = self.expr(kt[2], sc.extend(params), d - 1)
        self.feat("backpass")
        if f.tparams:
            self.inst_seen.setdefault(f.name, set()).add(tuple(sorted(s.items())))
        return G.Backpass(params, G.Var(f.name, TFn(pts, ty)), args, body, ty)

    # ---------------------------------------------------------------- declarations
    def gen_adts(self):
        r = self.rng
        n = self.choose([(1, 0), (4, 1), (4, 2), (2, 3)])
        kinds = ["enum", "record", "sum", "sum", "box", "tree", "chain", "either", "record"]
        for _ in range(n):
            kind = r.pick(kinds)
            name = "T%d" % (len(self.adts) + 1)
            self.feat("adt_kind:" + kind)

            def ft():
                return self.gen_type(1, True, fresh=True)

            def labelled(k):
                return [("%s_%s" % (name.lower(), "abcdefgh"[i]), ft()) for i in range(k)]

            if kind == "enum":
                decl = G.AdtDecl(name, [], [G.Ctor("%s%s" % (name, "ABCD"[i]), []) for i in range(r.range(2, 4))])
            elif kind == "record":
                decl = G.AdtDecl(name, [], [G.Ctor(name, labelled(r.range(1, 4)))])
            elif kind == "sum":
                ctors = []
                for i in range(r.range(2, 4)):
                    ch = r.below(3)
                    cn = "%s%s" % (name, "ABCD"[i])
                    if ch == 0:
                        ctors.append(G.Ctor(cn, []))
                    elif ch == 1:
                        ctors.append(G.Ctor(cn, [(None, ft()) for _ in range(r.range(1, 3))]))
                    else:
                        ctors.append(G.Ctor(cn, [("%s_%s%s" % (name.lower(), "abcd"[i], "xyz"[j]), ft()) for j in range(r.range(1, 3))]))
                decl = G.AdtDecl(name, [], ctors)
            elif kind == "box":
                if r.chance(1, 2):
                    decl = G.AdtDecl(name, ["a"], [G.Ctor(name, [(None, TVar("a"))])])
                else:
                    decl = G.AdtDecl(name, ["a"], [G.Ctor(name, [("%s_val" % name.lower(), TVar("a")), ("%s_tag" % name.lower(), INT)])])
            elif kind == "tree":
                me = TAdt(name, TVar("a"))
                decl = G.AdtDecl(name, ["a"], [G.Ctor(name + "Leaf", []), G.Ctor(name + "Node", [(None, me), (None, TVar("a")), (None, me)])])
            elif kind == "chain":
                me = TAdt(name)
                ctors = [G.Ctor(name + "Nil", []), G.Ctor(name + "Link", [(None, ft()), (None, me)])]
                if r.chance(1, 3):
                    ctors.append(G.Ctor(name + "Fork", [(None, me), (None, me)]))
                decl = G.AdtDecl(name, [], ctors)
            else:
                decl = G.AdtDecl(name, ["a", "b"], [G.Ctor(name + "L", [(None, TVar("a"))]), G.Ctor(name + "R", [(None, TVar("b"))])])
            self.adts.append(decl)
            self.adt_tab[name] = decl

    def build_pool(self):
        r = self.rng
        pool = [INT, INT, BOOL, TList(INT)]
        if r.chance(1, 2):
            pool.append(BYTES)
        for a in self.adts:
            pool.append(TAdt(a.name, *[self.gen_type(0, True, fresh=True) for _ in a.tparams]))
            if a.tparams and r.chance(1, 2):
                pool.append(TAdt(a.name, *[self.gen_type(1, True, fresh=True) for _ in a.tparams]))
        for _ in range(r.range(2, 4)):
            pool.append(self.gen_type(2, True, fresh=True))
        focus = self.opts.get("focus")
        if focus == "lists":
            # nested list / tuple / option shapes: the pattern-match compilation of lists is where F2, F7, F9 live
            extra = [TList(TList(INT)), TList(TTuple(INT, BOOL)), TList(TOption(INT)), TList(TList(BOOL)), TTuple(TList(INT), TList(INT)), TList(TPair(INT, INT)), TOption(TList(INT))]
            pool = pool + r.shuffle(extra)[:4] * 2
        self.pool = pool

    def total_expr(self, ty, d):
        """constant expression: literals, constructors, total arithmetic, earlier constants"""
        r = self.rng
        cs = [c for c in self.consts if c.ty == ty]
        if cs and r.chance(1, 3):
            return G.Var(r.pick(cs).name, ty)
        k = ty[0]
        if k == "Int" and d > 0 and r.chance(1, 2):
            return G.Bin(r.pick(["+", "-", "*"]), self.total_expr(INT, d - 1), self.total_expr(INT, d - 1), INT)
        if k == "List" and d > 0:
            n = r.range(0, 3)
            return G.ListE([self.total_expr(ty[1], d - 1) for _ in range(n)], None, ty)
        if k == "Tuple" and d > 0:
            return G.TupleE([self.total_expr(t, d - 1) for t in ty[1:]], ty)
        if k == "Pair" and d > 0:
            return G.PairE(self.total_expr(ty[1], d - 1), self.total_expr(ty[2], d - 1), ty)
        if k == "Adt" and d > 0:
            decl = self.adt_tab[ty[1]]
            idxs = self.base_ctors(ty) if d <= 1 else list(range(len(decl.ctors)))
            i = r.pick(idxs or [0])
            return G.ConE(ty[1], i, [self.total_expr(t, d - 1) for t in self.ctor_ftypes(ty, i)], self.con_style(ty[1], i), ty)
        return self.lit_of(self.gen_value(ty, 1), ty)

    def gen_consts(self):
        r = self.rng
        for _ in range(self.choose([(2, 0), (4, 1), (3, 2), (2, 3)])):
            for _try in range(5):
                t = self.gen_type(2, True)
                if self.contains_data(t):
                    continue
                break
            else:
                t = INT
            name = "const_%d" % (len(self.consts) + 1)
            self.feat("const")
            self.feat("const:" + t[0])
            e = self.total_expr(t, 2)
            self.consts.append(G.Const(name, t, e))

    def contains_data(self, t):
        k = t[0]
        if k == "Data":
            return True
        if k == "List":
            return self.contains_data(t[1])
        if k in ("Tuple", "Pair"):
            return any(self.contains_data(x) for x in t[1:])
        if k == "Adt":
            if any(self.contains_data(x) for x in t[2]):
                return True
            decl = self.adt_tab[t[1]]
            return any(ft == DATA or (ft[0] != "Adt" and self.contains_data(ft)) for c in decl.ctors for _l, ft in c.fields)
        return False

    def body_budget(self):
        self.bound_labels = set()  # called once at the start of every function body
        return 10 + self.size * 7 + self.rng.below(10 + self.size * 5)

    def body_depth(self):
        return self.choose([(1, 2), (3, 3), (4, 4)])

    def gen_body(self, ty, sc):
        self.nodes_left = self.body_budget()
        return self.expr(ty, sc, self.body_depth())

    # -- plain helper ---------------------------------------------------------
    def gen_plain_fn(self, name=None):
        r = self.rng
        name = name or "plain_%d" % (len(self.fns) + 1)
        params = []
        for _ in range(0 if r.chance(1, 12) else r.range(1, 3)):
            params.append((self.fresh("x"), self.gen_type(2, False)))
        if not params:
            self.feat("fn:zero_arg")
        if r.chance(1, 3):
            kt = TFn([self.gen_type(1, False) for _ in range(r.range(1, 2))], self.gen_type(1, False))
            params.append((self.fresh("k"), kt))
            self.feat("fn:higher_order")
        ret = self.gen_type(2, False)
        if params and params[-1][1][0] == "Fn" and r.chance(2, 3):
            ret = params[-1][1][2]
        elif r.chance(1, 10):
            ret = TFn([self.gen_type(1, False)], self.gen_type(1, False))
            self.feat("fn:returns_fn")
        body = self.gen_body(ret, Scope().extend(params))
        self.feat("fn:plain")
        self.add_fn(G.FnDef(name, [], params, ret, body, False))

    def add_fn(self, f):
        self.fns.append(f)
        self.callable.append(f)
        self.strict_params[f.name] = [A.strict_occ(n, f.body) for n, _t in f.params]
        A.set_strict_params(self.strict_params)

    # -- generic helper ---------------------------------------------------------
    def gen_generic_fn(self):
        r = self.rng
        name = "poly_%d" % (len(self.fns) + 1)
        a, b = TVar("a"), TVar("b")
        two = r.chance(1, 2)
        shapes_a = [a, TList(a), TOption(a), TTuple(a, INT), TList(a)]
        for d in self.adts:
            if len(d.tparams) == 1:
                shapes_a.append(TAdt(d.name, a))
        params = [(self.fresh("x"), r.pick(shapes_a))]
        if params[0][1] != a or r.chance(1, 3):
            params.append((self.fresh("x"), a))
        if r.chance(1, 3):
            params.append((self.fresh("x"), r.pick([INT, BOOL, TList(a)])))
        if two:
            fn_shapes = [TFn([a], b), TFn([a, b], b)]
            val_shapes = [b]
            kf = r.pick(fn_shapes)
            if r.chance(1, 2) or len(kf[1]) == 2:
                params.append((self.fresh("x"), r.pick(val_shapes)))
            params.append((self.fresh("k"), kf))
            rets = [b, TList(b), TOption(b), TTuple(a, b), b]
        else:
            if r.chance(1, 2):
                params.append((self.fresh("k"), r.pick([TFn([a], BOOL), TFn([a], a), TFn([a, a], a), TFn([a], INT)])))
            rets = [a, TList(a), TOption(a), BOOL, INT, TTuple(a, a), a]
        ret = r.pick(rets)
        tparams = ["a", "b"] if two else ["a"]
        body = self.gen_body(ret, Scope().extend(params))
        self.feat("fn:generic")
        self.add_fn(G.FnDef(name, tparams, params, ret, body, False))

    # -- recursive helpers ------------------------------------------------------
    def extras(self):
        r = self.rng
        out = []
        for _ in range(self.choose([(3, 0), (4, 1), (2, 2)])):
            out.append((self.fresh("x"), self.gen_type(1, False)))
        return out

    def rec_special(self, fname, first_var, first_ty, extra_params, ret, tag, first_expr=None):
        def build(gen, sc, d):
            gen.feat(tag)
            first = first_expr(gen) if first_expr else G.Var(first_var, first_ty)
            args = [first] + [gen.expr(t, sc, min(d - 1, 2)) for _n, t in extra_params]
            return G.Call(G.Var(fname, TFn([first_ty] + [t for _n, t in extra_params], ret)), args, "plain", ret)
        return (ret, build, tag)

    def step_with_rec(self, ret, sc, specials, d):
        """a step body that contains at least one recursive call (bound by a strict let or used directly)"""
        r = self.rng
        sp = r.pick(specials)
        call = sp[1](self, sc, d)
        if r.chance(1, 2):
            name = self.fresh("r")
            sc2 = sc.extend([(name, ret)])
            for _ in range(3):
                body = self.expr(ret, sc2, d - 1)
                if A.occurs(name, body) and A.strict_occ(name, body):
                    return G.Let(G.PVar(name, ret), None, call, body, ret)
            b = self.strict_user(name, ret, ret, sc2, d)
            if b is not None:
                return G.Let(G.PVar(name, ret), None, call, b, ret)
            return call
        # direct use: wrap the call in some operation of the result type
        if ret == INT:
            return G.Bin(r.pick(["+", "-", "*"]), self.expr(INT, sc, d - 1), call, INT)
        if ret == BOOL:
            return G.Bin(r.pick(["&&", "||"]), self.expr(BOOL, sc, d - 1), call, BOOL)
        if ret[0] == "List":
            return G.ListE([self.expr(ret[1], sc, d - 1)], call, ret)
        return call

    def gen_rec_list_fn(self, generic=False):
        r = self.rng
        name = "rec_%d" % (len(self.fns) + 1)
        et = TVar("a") if generic else self.gen_type(1, True)
        lt = TList(et)
        xs = self.fresh("xs")
        ex = self.extras()
        if generic and r.chance(2, 3):
            ex.append((self.fresh("k"), r.pick([TFn([TVar("a")], BOOL), TFn([TVar("a")], INT), TFn([TVar("a")], TVar("a"))])))
        if generic:
            ret = r.pick([INT, BOOL, lt, TOption(et), lt])
        else:
            ret = self.gen_type(1, False)
        params = [(xs, lt)] + ex
        sc0 = Scope().extend(params)
        self.nodes_left = self.body_budget()
        d = self.body_depth()
        base = self.expr(ret, sc0, d - 2)
        x, rest = self.fresh("h"), self.fresh("t")
        sp = [self.rec_special(name, rest, lt, ex, ret, "rec:list_call")]
        clauses = [([G.PList([], None, lt)], base)]
        if r.chance(1, 3):
            y = self.fresh("h")
            one = self.expr(ret, sc0.extend([(x, et)]), d - 2)
            clauses.append(([G.PList([G.PVar(x, et)], None, lt)], one))
            sc1 = sc0.extend([(x, et), (y, et), (rest, lt)]).with_specials(sp, [xs, rest])
            step = self.step_with_rec(ret, sc1, sp, d - 1)
            clauses.append(([G.PList([G.PVar(x, et), G.PVar(y, et)], G.PVar(rest, lt), lt)], step))
        else:
            sc1 = sc0.extend([(x, et), (rest, lt)]).with_specials(sp, [xs, rest])
            step = self.step_with_rec(ret, sc1, sp, d - 1)
            clauses.append(([G.PList([G.PVar(x, et)], G.PVar(rest, lt), lt)], step))
        if r.chance(1, 2):
            clauses = [clauses[-1]] + clauses[:-1]
        body = G.When(G.Var(xs, lt), clauses, ret)
        self.feat("fn:rec_list")
        if generic:
            self.feat("fn:generic")
        self.add_fn(G.FnDef(name, ["a"] if generic else [], params, ret, body, False))

    def gen_rec_int_fn(self):
        r = self.rng
        name = "rec_%d" % (len(self.fns) + 1)
        n = self.fresh("n")
        ex = self.extras()
        ret = self.gen_type(1, False)
        params = [(n, INT)] + ex
        sc0 = Scope().extend(params)
        self.nodes_left = self.body_budget()
        d = self.body_depth()
        base = self.expr(ret, sc0, d - 2)
        nv = G.Var(n, INT)
        if r.chance(1, 2):
            cond = G.Bin("<=", nv, G.Lit(0, "dec", INT), BOOL)
            nxt = lambda gen: G.Bin("/", G.Var(n, INT), G.Lit(gen.rng.pick([2, 3]), "dec", INT), INT)  # noqa: E731
            self.feat("rec:int_halving")
        else:
            cond = G.Bin("||", G.Bin("<=", nv, G.Lit(0, "dec", INT), BOOL), G.Bin(">", nv, G.Lit(r.pick([5, 12, 20]), "dec", INT), BOOL), BOOL)
            nxt = lambda gen: G.Bin("-", G.Var(n, INT), G.Lit(1, "dec", INT), INT)  # noqa: E731
            self.feat("rec:int_countdown")
        sp = [self.rec_special(name, n, INT, ex, ret, "rec:int_call", first_expr=nxt)]
        sc1 = sc0.with_specials(sp, [n])
        step = self.step_with_rec(ret, sc1, sp, d - 1)
        body = G.If([(cond, base)], step, ret)
        self.feat("fn:rec_int")
        self.add_fn(G.FnDef(name, [], params, ret, body, False))

    def gen_rec_adt_fn(self):
        r = self.rng
        recs = [a for a in self.adts if any(self.mentions(ft, a.name) for c in a.ctors for _l, ft in c.fields)]
        if not recs:
            return self.gen_rec_list_fn()
        a = r.pick(recs)
        name = "rec_%d" % (len(self.fns) + 1)
        ty = TAdt(a.name, *[self.gen_type(0, True) for _ in a.tparams])
        t = self.fresh("t")
        ex = self.extras()
        ret = self.gen_type(1, False)
        params = [(t, ty)] + ex
        sc0 = Scope().extend(params)
        self.nodes_left = self.body_budget() + 10
        d = self.body_depth()
        clauses = []
        for i, c in enumerate(a.ctors):
            fts = self.ctor_ftypes(ty, i)
            vars_ = [(self.fresh("c"), ft) for ft in fts]
            pat = G.PCon(a.name, i, [(j, G.PVar(vn, vt)) for j, (vn, vt) in enumerate(vars_)], False, "pos", ty)
            recvars = [(vn, vt) for vn, vt in vars_ if vt == ty]
            sc1 = sc0.extend(vars_)
            if recvars:
                sp = [self.rec_special(name, vn, ty, ex, ret, "rec:adt_call") for vn, _vt in recvars]
                sc1 = sc1.with_specials(sp, [t] + [vn for vn, _ in recvars])
                body = self.step_with_rec(ret, sc1, sp, d - 1)
            else:
                body = self.expr(ret, sc1, d - 2)
            clauses.append(([pat], body))
        body = G.When(G.Var(t, ty), clauses, ret)
        self.feat("fn:rec_adt")
        self.add_fn(G.FnDef(name, [], params, ret, body, False))

    def gen_mutual_fns(self):
        r = self.rng
        n1 = "mut_%d" % (len(self.fns) + 1)
        n2 = "mut_%d" % (len(self.fns) + 2)
        et = self.gen_type(1, True)
        lt = TList(et)
        ret = self.gen_type(1, False)
        ex = self.extras()
        d = self.body_depth()
        defs = []
        for me, other in ((n1, n2), (n2, n1)):
            xs = self.fresh("xs")
            myex = [(self.fresh("x"), t) for _n, t in ex]
            params = [(xs, lt)] + myex
            sc0 = Scope().extend(params)
            self.nodes_left = self.body_budget()
            base = self.expr(ret, sc0, d - 2)
            x, rest = self.fresh("h"), self.fresh("t")
            sp = [self.rec_special(other, rest, lt, myex, ret, "rec:mutual_call")]
            sc1 = sc0.extend([(x, et), (rest, lt)]).with_specials(sp, [xs, rest])
            step = self.step_with_rec(ret, sc1, sp, d - 1)
            body = G.When(G.Var(xs, lt), [([G.PList([], None, lt)], base), ([G.PList([G.PVar(x, et)], G.PVar(rest, lt), lt)], step)], ret)
            defs.append(G.FnDef(me, [], params, ret, body, False))
        self.feat("fn:mutual")
        for f in defs:
            self.add_fn(f)

    # -- entries ---------------------------------------------------------------
    def gen_entry(self, i):
        """generate-and-test: prefer an entry whose outcome depends on its arguments and that does not always abort
        (the interpreter is only used here to steer the generator)"""
        import interp
        import json as _json

        best = None
        for _try in range(5):
            saved_feats = dict(self.features)
            e = self.gen_entry_once(i)
            feats_after = self.features
            m = G.Module(self.adts, self.consts, self.fns, [e], {}, {})
            argv = gen_args(self.rng, [t for _n, t in e.fn.params], 6, self.adts, e.hints)
            outs = []
            for tup in argv:
                try:
                    outs.append(interp.run(m, e, list(tup), 20000))
                except Exception:
                    outs.append(("error",))
            distinct = len(set(_json.dumps(o, sort_keys=True) for o in outs))
            aborts = sum(1 for o in outs if o[0] != "ok")
            score = (2 if distinct > 1 else 0) + (1 if aborts < len(outs) else 0) + (1 if aborts == 0 and distinct > 1 else 0)
            if best is None or score > best[0]:
                best = (score, e, feats_after)
            if score >= 3:
                break
            self.features = saved_feats
        self.features = best[2]
        return best[1]

    def gen_entry_once(self, i):
        r = self.rng
        params = []
        hints = []
        for _ in range(r.range(1, 3)):
            if r.chance(1, 6):
                h = self.gen_type(2, True)
                if h == DATA:
                    h = INT
                params.append((self.fresh("d"), DATA, h))
                hints.append(h)
            else:
                t = self.gen_type(2, True)
                params.append((self.fresh("x"), t, None))
                hints.append(None)
        rt = self.gen_type(2, True)
        sc = Scope().extend_h(params)
        self.nodes_left = self.body_budget() + 8
        inner = self.expr(rt, sc, self.body_depth())
        body = self.upcast("result", inner)
        f = G.FnDef("entry_%d" % i, [], [(n, t) for n, t, _h in params], DATA, body, True)
        return G.Entry(f, hints, rt)

    def generate(self):
        r = self.rng
        self.gen_adts()
        A.set_adts(self.adt_tab)
        A.set_strict_params(self.strict_params)
        self.build_pool()
        self.gen_consts()
        nf = max(1, self.size - 1 + r.below(self.size + 1))
        kinds = [(6, "plain"), (3, "generic"), (3, "rec_list"), (2, "rec_list_generic"), (2, "rec_int"), (2, "rec_adt"), (1, "mutual")]
        while len(self.fns) < nf:
            k = self.choose(kinds)
            if k == "plain":
                self.gen_plain_fn()
            elif k == "generic":
                self.gen_generic_fn()
            elif k == "rec_list":
                self.gen_rec_list_fn()
            elif k == "rec_list_generic":
                self.gen_rec_list_fn(generic=True)
            elif k == "rec_int":
                self.gen_rec_int_fn()
            elif k == "rec_adt":
                self.gen_rec_adt_fn()
            else:
                self.gen_mutual_fns()
        meta = {}
        if r.chance(1, 4) and (self.adts or self.fns or self.consts) and not self.opts.get("single_module"):
            self.feat("layout:two_modules")
            if self.fns and r.chance(1, 2):
                # a helper local to module `m` that carries the same name as a helper of module `lib`
                # (the latter is then referred to as `lib.name`)
                victim = r.pick(self.fns)
                local = "local_%d" % (len(self.fns) + 1)
                self.gen_plain_fn(local)
                meta = {"alias": {local: victim.name}, "qualified": [victim.name], "local": [local]}
                self.feat("layout:same_name_in_two_modules")
        entries = [self.gen_entry(i) for i in range(self.choose([(3, 1), (4, 2), (2, 3)]))]
        for fn, insts in self.inst_seen.items():
            if len(insts) >= 2:
                self.feat("generic:multi_instantiation")
        return G.Module(self.adts, self.consts, self.fns, entries, dict(self.features), meta)


def generate_module(rng, size=3, opts=None):
    return Gen(rng, size, opts).generate()


# ------------------------------------------------------------------ arguments


def mutate_data(rng, d):
    """near-miss mutation of a Data value (one random node)"""
    nodes = []

    def walk(x, path):
        nodes.append(path)
        if x[0] == "c":
            for i, y in enumerate(x[2]):
                walk(y, path + (i,))
        elif x[0] == "l":
            for i, y in enumerate(x[1]):
                walk(y, path + (i,))
        elif x[0] == "m":
            for i, (k, v) in enumerate(x[1]):
                walk(k, path + ((i, 0),))
                walk(v, path + ((i, 1),))

    walk(d, ())
    target = rng.pick(nodes)

    def change(x):
        t = x[0]
        ch = rng.below(4)
        if t == "c":
            if ch == 0:
                return ("c", x[1] + 1, x[2])
            if ch == 1:
                return ("c", max(0, x[1] - 1), x[2][:-1]) if x[2] else ("c", x[1], (("i", 0),))
            if ch == 2:
                return ("c", x[1], x[2] + (("i", 1),))
            return ("l", x[2])
        if t == "l":
            if ch == 0:
                return ("l", x[1][:-1]) if x[1] else ("m", ())
            if ch == 1:
                return ("l", x[1] + (("b", b"\x01"),))
            if ch == 2:
                return ("c", 0, x[1])
            return ("m", tuple((y, y) for y in x[1]))
        if t == "m":
            if ch == 0:
                return ("l", tuple(("l", (k, v)) for k, v in x[1]))
            if ch == 1:
                return ("m", x[1] + ((("i", 0), ("b", b"")),))
            return ("l", ())
        if t == "i":
            return ("b", b"\x00") if ch < 2 else ("i", x[1] + 1)
        return ("i", len(x[1])) if ch < 2 else ("c", 0, ())

    def rebuild(x, path):
        if not path:
            return change(x)
        h = path[0]
        if x[0] == "c":
            fs = list(x[2])
            fs[h] = rebuild(fs[h], path[1:])
            return ("c", x[1], tuple(fs))
        if x[0] == "l":
            fs = list(x[1])
            fs[h] = rebuild(fs[h], path[1:])
            return ("l", tuple(fs))
        i, side = h
        ps = list(x[1])
        k, v = ps[i]
        if side == 0:
            k = rebuild(k, path[1:])
        else:
            v = rebuild(v, path[1:])
        ps[i] = (k, v)
        return ("m", tuple(ps))

    return rebuild(d, target)


def gen_args(rng, types, n, adts=(), hints=None):
    """n argument tuples (python values) for the given parameter types; boundary-biased.
    A Data parameter with a hint type mostly receives encodings of that type (sometimes near misses)."""
    g = Gen(rng, 1)
    for a in adts:
        g.adts.append(a)
        g.adt_tab[a.name] = a
    out = []
    for i in range(n):
        tup = []
        for j, t in enumerate(types):
            h = hints[j] if hints else None
            if t == DATA and h is not None:
                v = M.to_data(g.gen_value(h, 3), h, g.adt_tab)
                if rng.chance(1, 3):
                    v = mutate_data(rng, v)
                tup.append(v)
            else:
                tup.append(g.gen_value(t, 3 if i else 1))
        out.append(tuple(tup))
    return out
