#!/usr/bin/env python3
"""Reduce a failing generated module.

    triage.py --seed S --index I [--size K] [--args A] [--include-known] [--allow-hazard]

Regenerates module I of run `--seed S`, finds what goes wrong (compile panic / rejection / disagreement)
and greedily shrinks the module while the same kind of failure persists (the expectation is recomputed
by the interpreter on every candidate).
"""
import argparse
import json
import os
import sys

HERE = os.path.dirname(os.path.abspath(__file__))
sys.path.insert(0, HERE)
sys.path.insert(0, os.path.dirname(HERE))

import drv  # noqa: E402
import interp  # noqa: E402
import model as M  # noqa: E402
import pp  # noqa: E402
import reduce as R  # noqa: E402
import run_c01  # noqa: E402


TRACING = ["verbose-all"]


def observe(m, args_by_entry, fuel=run_c01.FUEL):
    """-> list of (kind, detail) failures of module m on the given argument values"""
    src = pp.pp_modules(m)
    adts = M.adt_table(m.adts)
    ents = []
    exp = {}
    for e in m.entries:
        vals = args_by_entry.get(e.fn.name, [])
        types = [t for _n, t in e.fn.params]
        enc = [[M.value_to_json(v, t, adts) for v, t in zip(tup, types)] for tup in vals]
        exp[e.fn.name] = [interp.run(m, e, list(tup), fuel) for tup in vals]
        ents.append({"name": e.fn.name, "args": enc})
    r = drv.run_one(src, ents, tracings=tuple(TRACING))
    out = []
    if "runs" not in r:
        return [("died", json.dumps(r)[:200])]
    run = r["runs"][0]
    if "rejected" in run:
        rj = run["rejected"]
        return [("rejected", rj.get("rejected", "") + ":" + (rj.get("error", {}) or {}).get("variant", ""))]
    for e, er in zip(ents, run["entries"]):
        if "compile_panic" in er:
            out.append(("compile_panic", er["compile_panic"].split(" @ ")[-1]))
            continue
        for k, got in enumerate(er.get("results", [])):
            x = exp[e["name"]][k]
            o = drv.outcome(got)
            if x[0] == "fuel":
                continue
            if "panic" in got:
                out.append(("machine_panic", got["panic"].split(" @ ")[-1]))
            elif (x[0] == "ok" and o[0] == "ok" and o[1] == x[1]) or (x[0] == "abort" and o[0] == "abort"):
                continue
            else:
                out.append(("disagree", "%s/%s" % (x[0], o[0]), e["name"], k, x, o))
    return out


def main():
    ap = argparse.ArgumentParser()
    ap.add_argument("--seed", type=int, required=True)
    ap.add_argument("--index", type=int, required=True)
    ap.add_argument("--size", type=int, default=None)
    ap.add_argument("--args", type=int, default=8)
    ap.add_argument("--include-known", action="store_true")
    ap.add_argument("--allow-hazard", action="store_true")
    ap.add_argument("--focus", default=None)
    ap.add_argument("--tracing", default="verbose-all")
    ap.add_argument("--kind", default=None, help="restrict to this failure kind (compile_panic, disagree, machine_panic, rejected)")
    a = ap.parse_args()
    opts = {"allow_hazard": a.allow_hazard, "include_known": a.include_known, "focus": a.focus}
    TRACING[0] = a.tracing
    c = run_c01.build_case(a.seed, a.index, a.args, a.size, opts)
    m = c["module"]
    vals = {e["name"]: e["values"] for e in c["entries"]}
    fails = observe(m, vals)
    if a.kind:
        fails = [f for f in fails if f[0] == a.kind]
    if not fails:
        print("no failure observed")
        return 0
    target = fails[0]
    print("target failure:", target[:2])
    key = target[:2]
    if target[0] == "disagree":
        # keep only the failing entry and argument tuple
        vals = {target[2]: [vals[target[2]][target[3]]]}

    def pred(mod):
        try:
            fs = observe(mod, vals)
        except Exception:
            return False
        return any(f[:2] == key for f in fs)

    keep = target[2] if target[0] == "disagree" else None
    small = R.reduce_module(m, pred, keep_entry=keep, log=None, allow_hazard=a.allow_hazard)
    for x in pp.pp_modules(small):
        print("// ---- module " + x["name"])
        print(x["src"])
    fs = [f for f in observe(small, vals) if f[:2] == key]
    print("// failure:", fs[0])
    if target[0] == "disagree":
        adts = M.adt_table(small.adts)
        e = [x for x in small.entries if x.fn.name == target[2]][0]
        types = [t for _n, t in e.fn.params]
        print("// args:", json.dumps([M.value_to_json(v, t, adts) for v, t in zip(vals[target[2]][0], types)]))
    return 0


if __name__ == "__main__":
    import threading

    threading.stack_size(512 * 1024 * 1024)
    t = threading.Thread(target=main)
    t.start()
    t.join()
