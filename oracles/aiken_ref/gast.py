"""Generator-side AST for the C01 oracle (types, patterns, expressions, definitions).

This AST is *ours*: it is produced by gen.py, printed by pp.py and interpreted by
interp.py. It never goes through Aiken's own AST.

Types are hashable tuples:
    ("Int",) ("Bool",) ("Bytes",) ("String",) ("Void",) ("Data",)
    ("List", t) ("Tuple", t1, .., tn) ("Pair", a, b)
    ("Adt", name, (targ, ..))          -- user ADTs and the prelude's Option / Ordering
    ("Fn", (arg, ..), ret)
    ("Var", "a")                       -- type variable (only inside generic definitions)
"""

INT = ("Int",)
BOOL = ("Bool",)
BYTES = ("Bytes",)
STRING = ("String",)
VOID = ("Void",)
DATA = ("Data",)
ORDERING = ("Adt", "Ordering", ())


def TList(t):
    return ("List", t)


def TTuple(*ts):
    return ("Tuple",) + tuple(ts)


def TPair(a, b):
    return ("Pair", a, b)


def TAdt(name, *targs):
    return ("Adt", name, tuple(targs))


def TOption(t):
    return ("Adt", "Option", (t,))


def TFn(args, ret):
    return ("Fn", tuple(args), ret)


def TVar(n):
    return ("Var", n)


def subst(t, s):
    """Apply a substitution {tvar name: type} to a type."""
    k = t[0]
    if k == "Var":
        return s.get(t[1], t)
    if k == "List":
        return ("List", subst(t[1], s))
    if k == "Tuple":
        return ("Tuple",) + tuple(subst(x, s) for x in t[1:])
    if k == "Pair":
        return ("Pair", subst(t[1], s), subst(t[2], s))
    if k == "Adt":
        return ("Adt", t[1], tuple(subst(x, s) for x in t[2]))
    if k == "Fn":
        return ("Fn", tuple(subst(x, s) for x in t[1]), subst(t[2], s))
    return t


def tvars_of(t, acc=None):
    if acc is None:
        acc = []
    k = t[0]
    if k == "Var":
        if t[1] not in acc:
            acc.append(t[1])
    elif k == "List":
        tvars_of(t[1], acc)
    elif k == "Tuple":
        for x in t[1:]:
            tvars_of(x, acc)
    elif k == "Pair":
        tvars_of(t[1], acc)
        tvars_of(t[2], acc)
    elif k == "Adt":
        for x in t[2]:
            tvars_of(x, acc)
    elif k == "Fn":
        for x in t[1]:
            tvars_of(x, acc)
        tvars_of(t[2], acc)
    return acc


def unify(pat, t, s):
    """One-way matching: find s' >= s with subst(pat, s') == t (t is ground w.r.t. pat's variables).
    Returns the extended substitution or None."""
    k = pat[0]
    if k == "Var":
        if pat[1] in s:
            return s if s[pat[1]] == t else None
        s = dict(s)
        s[pat[1]] = t
        return s
    if k != t[0]:
        return None
    if k == "List":
        return unify(pat[1], t[1], s)
    if k == "Tuple":
        if len(pat) != len(t):
            return None
        for a, b in zip(pat[1:], t[1:]):
            s = unify(a, b, s)
            if s is None:
                return None
        return s
    if k == "Pair":
        s = unify(pat[1], t[1], s)
        return None if s is None else unify(pat[2], t[2], s)
    if k == "Adt":
        if pat[1] != t[1] or len(pat[2]) != len(t[2]):
            return None
        for a, b in zip(pat[2], t[2]):
            s = unify(a, b, s)
            if s is None:
                return None
        return s
    if k == "Fn":
        if len(pat[1]) != len(t[1]):
            return None
        for a, b in zip(pat[1], t[1]):
            s = unify(a, b, s)
            if s is None:
                return None
        return unify(pat[2], t[2], s)
    return s if pat == t else None


def has_fn(t):
    k = t[0]
    if k == "Fn":
        return True
    if k == "List":
        return has_fn(t[1])
    if k == "Tuple":
        return any(has_fn(x) for x in t[1:])
    if k == "Pair":
        return has_fn(t[1]) or has_fn(t[2])
    if k == "Adt":
        return any(has_fn(x) for x in t[2])
    return False


def serialisable(t):
    """Can a value of this type be turned into Data (no functions, no String, no free type variable)?"""
    k = t[0]
    if k in ("Fn", "String", "Var"):
        return False
    if k == "List":
        return serialisable(t[1])
    if k == "Tuple":
        return all(serialisable(x) for x in t[1:])
    if k == "Pair":
        return serialisable(t[1]) and serialisable(t[2])
    if k == "Adt":
        return all(serialisable(x) for x in t[2])
    return True


def _node(name, fields):
    fs = tuple(fields.split())

    def __init__(self, *a, **kw):
        if len(a) > len(fs):
            raise TypeError(name + ": too many fields")
        for f, v in zip(fs, a):
            setattr(self, f, v)
        for f in fs[len(a):]:
            if f in kw:
                setattr(self, f, kw[f])
            else:
                raise TypeError(name + ": missing " + f)

    def __repr__(self):
        return name + "(" + ", ".join(repr(getattr(self, f)) for f in fs) + ")"

    return type(name, (object,), {"__slots__": fs, "__init__": __init__, "__repr__": __repr__, "K": name, "FIELDS": fs})


# ---------------------------------------------------------------- declarations
# AdtDecl.ctors : [Ctor]; Ctor.fields : [(label | None, type)]
AdtDecl = _node("AdtDecl", "name tparams ctors")
Ctor = _node("Ctor", "name fields")
Const = _node("Const", "name ty expr")
# FnDef.params : [(name, type)] ; tparams : [str] ; public: bool
FnDef = _node("FnDef", "name tparams params ret body public")
# Entry: an exported function returning Data; hints[i] is the type a Data parameter is meant to encode (or None)
Entry = _node("Entry", "fn hints result_ty")
# meta: {"alias": {ast name: printed name}, "qualified": [names printed as lib.name], "local": [fns living in module m]}
Module = _node("Module", "adts consts fns entries features meta")

PRELUDE_ADTS = {
    "Option": AdtDecl("Option", ["a"], [Ctor("Some", [(None, ("Var", "a"))]), Ctor("None", [])]),
    "Ordering": AdtDecl("Ordering", [], [Ctor("Less", []), Ctor("Equal", []), Ctor("Greater", [])]),
}

# ---------------------------------------------------------------- patterns
PVar = _node("PVar", "name ty")
PWild = _node("PWild", "ty")
PInt = _node("PInt", "n")
PBytes = _node("PBytes", "b style")
PBool = _node("PBool", "v")
PVoid = _node("PVoid", "")
# PCon.fields: [(field index, pattern)] (sorted by index); spread: `..` present; style: "pos" | "rec" | "pun"
PCon = _node("PCon", "adt idx fields spread style ty")
PTuple = _node("PTuple", "subs ty")
PPair = _node("PPair", "a b ty")
# PList.tail: None (exact length) | "discard" (`..`) | PVar (`..rest`)
PList = _node("PList", "elems tail ty")
PAs = _node("PAs", "pat name ty")

# ---------------------------------------------------------------- expressions (last field: ty)
Lit = _node("Lit", "val style ty")
Var = _node("Var", "name ty")
ListE = _node("ListE", "elems tail ty")
TupleE = _node("TupleE", "elems ty")
PairE = _node("PairE", "a b ty")
ConE = _node("ConE", "adt idx args style ty")
Bin = _node("Bin", "op l r ty")
Un = _node("Un", "op e ty")
Chain = _node("Chain", "kind es ty")
If = _node("If", "branches els ty")
# IfIs: `if subj is pat: cast_ty { then } else { els }`  (subj : Data)
IfIs = _node("IfIs", "subj pat cast_ty then els ty")
# When.clauses: [([alt patterns], body)]
When = _node("When", "subj clauses ty")
# Let: `let pat[: annot] = rhs  body`; annot == DATA with rhs.ty != DATA is an up-cast
Let = _node("Let", "pat annot rhs body ty")
# Expect: `expect pat[: annot] = rhs  body`; rhs.ty == DATA and annot != DATA is a checked down-cast
Expect = _node("Expect", "pat annot rhs body ty")
ExpectBool = _node("ExpectBool", "cond body ty")
# Call.style: "plain" | "pipe" (first argument printed on the left of |>)
Call = _node("Call", "fn args style ty")
Lam = _node("Lam", "params body ty")
# Capture.args: list with exactly one None (the hole `_`)
Capture = _node("Capture", "fn args ty")
Field = _node("Field", "e label idx ty")
TupIdx = _node("TupIdx", "e i ty")
RecUpd = _node("RecUpd", "adt idx base updates ty")
Fail = _node("Fail", "msg ty")
Todo = _node("Todo", "msg ty")
Trace = _node("Trace", "msg body ty")
TraceIfFalse = _node("TraceIfFalse", "e ty")
# Backpass: `let p1, p2 <- fn(args..)  body`  ==  fn(args.., fn(p1, p2) { body })
Backpass = _node("Backpass", "params fn args body ty")
Builtin = _node("Builtin", "name args ty")
