#!/usr/bin/env python3
"""C01 differential run: generated modules -> (driver: compile + evaluate) vs (definitional interpreter).

    run_c01.py --n N --seed S [--size K] [--args A] [--show-rejected] [--dump DIR]

Also exposes `cases(seed, n_modules, n_args)` for other checks (C02 / C06 / C14).
"""
import argparse
import json
import os
import sys
import threading
import time

HERE = os.path.dirname(os.path.abspath(__file__))
sys.path.insert(0, HERE)
sys.path.insert(0, os.path.dirname(HERE))

import common  # noqa: E402
import drv  # noqa: E402
import gen  # noqa: E402
import interp  # noqa: E402
import model as M  # noqa: E402
import pp  # noqa: E402

FUEL = 60000


def module_for(seed, index, size=None, opts=None):
    rng = common.Rng(seed, stream=index + 1)
    sz = size if size is not None else 1 + rng.below(5)
    return gen.generate_module(rng, sz, opts), rng


def build_case(seed, index, n_args, size=None, opts=None, fuel=FUEL):
    m, rng = module_for(seed, index, size, opts)
    mods = pp.pp_modules(m)
    src = "\n".join("// ---- module %s\n%s" % (x["name"], x["src"]) for x in mods) if len(mods) > 1 else mods[0]["src"]
    adts = M.adt_table(m.adts)
    entries = []
    for e in m.entries:
        types = [t for _n, t in e.fn.params]
        argv = gen.gen_args(rng, types, n_args, m.adts, e.hints)
        enc, exp = [], []
        for tup in argv:
            enc.append([M.value_to_json(v, t, adts) for v, t in zip(tup, types)])
            exp.append(interp.run(m, e, list(tup), fuel))
        entries.append({"name": e.fn.name, "args": enc, "expected": exp, "values": argv})
    return {"index": index, "module": m, "src": src, "modules": mods, "entries": entries, "features": set(m.features), "feature_counts": dict(m.features)}


def cases(seed, n_modules, n_args, size=None, opts=None):
    """"modules": [{"name","kind","src"}] in dependency order (entries live in module "m"); "src" is the same text
    in one string. Yield {"src", "modules", "entries": [{"name", "args": [[data..]..], "expected": [("ok", data) | ("abort",) | ("fuel",)]}], "features"}."""
    for i in range(n_modules):
        c = build_case(seed, i, n_args, size, opts)
        yield c


def classify(case, entry, k):
    """When the compiled result differs from the strict interpretation: does it coincide with a
    call-by-need evaluation of the source (let / argument evaluated only when used)?"""
    m = case["module"]
    e = [x for x in m.entries if x.fn.name == entry["name"]][0]
    try:
        return interp.run(m, e, list(entry["values"][k]), FUEL, lazy=True)
    except Exception as ex:  # classification only
        return ("error", repr(ex))


def known_compile_panic(msg):
    """compile-time panics already recorded in FINDINGS.md (matched by message shape)"""
    if "FreeUnique" in msg and "_curried" in msg:
        return "F5 FreeUnique(.._curried) shrinker.rs"
    if "FreeUnique" in msg and "_id_" in msg:
        return "F4 FreeUnique(<var>_id_N) shrinker.rs"
    if "EvaluationFailure" in msg and "optimize/shrinker.rs" in msg:
        return "F8 constant folding of a failing builtin call (shrinker.rs unwrap)"
    if "TryFromBigIntError" in msg and "machine/runtime.rs" in msg:
        return "constant folding of a bytearray builtin with an out-of-range integer (C02/C10)"
    return None


def main(argv=None):
    ap = argparse.ArgumentParser()
    ap.add_argument("--n", type=int, default=200)
    ap.add_argument("--seed", type=int, default=0)
    ap.add_argument("--size", type=int, default=None)
    ap.add_argument("--args", type=int, default=8)
    ap.add_argument("--show-rejected", type=int, default=3)
    ap.add_argument("--show", type=int, default=10)
    ap.add_argument("--dump", default=None)
    ap.add_argument("--allow-hazard", action="store_true")
    ap.add_argument("--include-known", action="store_true", help="also generate the shapes that trigger recorded findings (FINDINGS.md)")
    ap.add_argument("--focus", default=None, help="bias the type pool (lists)")
    ap.add_argument("--shards", type=int, default=None)
    a = ap.parse_args(argv)
    opts = {"allow_hazard": a.allow_hazard, "include_known": a.include_known, "focus": a.focus}

    t0 = time.time()
    cs = list(cases(a.seed, a.n, a.args, a.size, opts))
    t_gen = time.time() - t0
    jobs = []
    for c in cs:
        ents = []
        for e in c["entries"]:
            keep = [i for i, x in enumerate(e["expected"]) if x[0] != "fuel"]
            e["sent"] = keep
            ents.append({"name": e["name"], "args": [e["args"][i] for i in keep]})
        jobs.append(drv.make_job(c["index"], c["modules"], ents))
    t1 = time.time()
    res = drv.run_many(jobs, shards=a.shards)
    t_run = time.time() - t1

    st = {"modules": len(cs), "rejected": 0, "panic": 0, "died": 0, "agree_value": 0, "agree_abort": 0, "fuel": 0, "disagree": 0, "other": 0, "lazy_explained": 0}
    feats = {}
    disagreements = []
    panics = {}
    known_panics = {}
    rejected = []
    for c in cs:
        for f, n in c["feature_counts"].items():
            feats[f] = feats.get(f, 0) + 1
        r = res.get(c["index"], {})
        if "runs" not in r:
            st["died"] += 1
            rejected.append((c, r))
            continue
        run = r["runs"][0]
        if "rejected" in run:
            st["rejected"] += 1
            rejected.append((c, run["rejected"]))
            continue
        for e, er in zip(c["entries"], run["entries"]):
            st["fuel"] += sum(1 for x in e["expected"] if x[0] == "fuel")
            if "results" not in er:
                msg = er.get("compile_panic", "")
                known = known_compile_panic(msg)
                if known:
                    st["known_compile_panic"] = st.get("known_compile_panic", 0) + 1
                    known_panics.setdefault(known, []).append(c["index"])
                    continue
                st["panic"] += 1
                disagreements.append((c, e, None, None, {k: v for k, v in er.items() if k in ("compile_panic", "harness_error")}, None))
                continue
            for k, got in zip(e["sent"], er["results"]):
                exp = e["expected"][k]
                o = drv.outcome(got)
                if exp[0] == "ok" and o[0] == "ok" and o[1] == exp[1]:
                    st["agree_value"] += 1
                elif exp[0] == "abort" and o[0] == "abort":
                    st["agree_abort"] += 1
                elif o[0] == "other" and "panic" in got:
                    # the evaluator itself panicked (a uplc machine defect: properties C04/C10), not a C01 verdict
                    site = got["panic"].split(" @ ")[-1]
                    st["machine_panic"] = st.get("machine_panic", 0) + 1
                    panics.setdefault(site, []).append((c, e, k, exp, got))
                elif o[0] == "other":
                    st["other"] += 1
                    disagreements.append((c, e, k, exp, got, None))
                else:
                    lz = classify(c, e, k)
                    explained = (lz[0] == "ok" and o[0] == "ok" and o[1] == lz[1])
                    tags = sorted(f for f in c["features"] if f.startswith("known:"))
                    why = None
                    if o[0] == "abort" and o[1] not in ("EvaluationFailure", "DivideByZero", "EmptyList", "DeserialisationError", "ByteStringOutOfBounds", "OutsideByteBounds", "OverflowError", "OutsideNaturalBounds"):
                        why = "machine error %s" % o[1]
                    if explained:
                        st["lazy_explained"] += 1
                        why = "call-by-need"
                    elif why:
                        pass
                    elif tags:
                        st["in_known_shape_modules"] = st.get("in_known_shape_modules", 0) + 1
                        why = "module contains " + ",".join(tags)
                    st["disagree"] += 1
                    disagreements.append((c, e, k, exp, o, why))

    total = st["agree_value"] + st["agree_abort"]
    print("== C01 run: seed=%d n=%d args=%d" % (a.seed, a.n, a.args))
    print("modules generated      : %d  (%.1f modules/min generation+interpretation)" % (st["modules"], 60.0 * st["modules"] / max(t_gen, 1e-9)))
    print("rejected by checker    : %d (%.1f%%)   driver died/timeouts: %d   compile panics: %d" % (st["rejected"], 100.0 * st["rejected"] / max(1, st["modules"]), st["died"], st["panic"]))
    print("cases agreed           : %d  (value %d, abort %d = %.1f%% aborts)  fuel-skipped %d  other %d" % (total, st["agree_value"], st["agree_abort"], 100.0 * st["agree_abort"] / max(1, total), st["fuel"], st["other"]))
    known_n = st["lazy_explained"] + st.get("in_known_shape_modules", 0)
    print("DISAGREEMENTS          : %d new  + %d call-by-need (FINDINGS.md F1 class)  + %d in modules generated with a known trigger shape (--include-known)" % (st["disagree"] - known_n, st["lazy_explained"], st.get("in_known_shape_modules", 0)))
    for key, idxs in sorted(known_panics.items()):
        print("known compile panic    : %s in %d entries (modules %s)" % (key, len(idxs), sorted(set(idxs))[:8]))
    for site, lst in sorted(panics.items()):
        c, e, k, exp, got = lst[0]
        print("machine panic (C04/C10) : %d cases at %s  e.g. module %d %s args %s: %s" % (len(lst), site, c["index"], e["name"], json.dumps(e["args"][k])[:200], got["panic"][:160]))
    print("driver wall            : %.1fs   generation wall: %.1fs" % (t_run, t_gen))
    print("feature coverage (modules using the feature):")
    line = []
    for f in sorted(feats):
        line.append("%s=%d" % (f, feats[f]))
    print("  " + "  ".join(line))
    if a.dump:
        os.makedirs(a.dump, exist_ok=True)
    for i, (c, rj) in enumerate(rejected[: a.show_rejected]):
        print("---- REJECTED module index %d: %s" % (c["index"], json.dumps(rj)[:1500]))
        if a.dump:
            with open(os.path.join(a.dump, "rejected_%d.ak" % c["index"]), "w") as f:
                f.write(c["src"])
    seen_mod = set()
    shown = 0
    for c, e, k, exp, got, why in disagreements:
        if a.dump and c["index"] not in seen_mod:
            with open(os.path.join(a.dump, "disagree_%d.ak" % c["index"]), "w") as f:
                f.write(c["src"])
        if c["index"] in seen_mod and shown >= a.show:
            continue
        seen_mod.add(c["index"])
        if shown < a.show:
            shown += 1
            print("---- DISAGREEMENT module index %d entry %s%s" % (c["index"], e["name"], "  [" + why + "]" if why else ""))
            print("args    : %s" % (json.dumps(e["args"][k]) if k is not None else "-"))
            print("expected: %s" % (json.dumps(exp),))
            print("got     : %s" % (json.dumps(got)[:600],))
            if not a.dump:
                print(c["src"])
    print("modules with a disagreement: %s" % sorted(seen_mod))
    return 1 if (st["disagree"] - known_n or st["panic"]) else 0


if __name__ == "__main__":
    threading.stack_size(512 * 1024 * 1024)
    rc = []
    t = threading.Thread(target=lambda: rc.append(main()))
    t.start()
    t.join()
    sys.exit(rc[0] if rc else 2)
