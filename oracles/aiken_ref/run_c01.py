#!/usr/bin/env python3
"""C01 differential run: generated modules -> (driver: compile + evaluate) vs (definitional interpreter).

    run_c01.py --n N --seed S [--tracing cycle|all|verbose-all|silent-all|compact-user|..] [--size K] [--args A]
               [--include-known] [--allow-hazard] [--focus lists] [--dump DIR]

`--tracing cycle` (default): module i is compiled under TRACINGS[i % 3] (verbose-all, silent-all, compact-user),
like /verif/oracles/c01.py does; `all` compiles every module under the three of them.

API for the other checks (C02 / C06 / C14 / c01.py):
    cases(seed, n_modules, n_args, size=None, opts=None)        generated cases with the interpreter's expectations
    build_case(seed, index, n_args, size=None, opts=None)       one of them (deterministic in (seed, index, opts))
    explain_case(case, entry, k, tracing, got) -> label | None  exact label of a known disagreement class
    explain(seed, index, n_args, opts, entry_name, k, tracing, got_outcome) -> label | None   same, re-deriving the case
    LABELS                                                      every label explain can return (atoms; "+"-joined)
    known_compile_panic(msg) -> label | None
"""
import argparse
import itertools
import json
import os
import sys
import threading
import time

HERE = os.path.dirname(os.path.abspath(__file__))
sys.path.insert(0, HERE)
sys.path.insert(0, os.path.dirname(HERE))

import common  # noqa: E402
import drv  # noqa: E402
import gen  # noqa: E402
import interp  # noqa: E402
import model as M  # noqa: E402
import pp  # noqa: E402

FUEL = 60000
TRACINGS = ["verbose-all", "silent-all", "compact-user"]

# aborts a well-typed program may end with (everything else is a structural machine error: C06)
ABORTS_OK = {"EvaluationFailure", "DivideByZero", "EmptyList", "DeserialisationError", "ByteStringOutOfBounds", "OutsideByteBounds", "OverflowError", "OutsideNaturalBounds", "ByteStringConsNotAByte", "IntegerToByteStringNegativeInput", "IntegerToByteStringNegativeSize", "IntegerToByteStringSizeTooBig", "IntegerToByteStringSizeTooSmall", "ReplicateByteNegativeSize", "ReplicateByteSizeTooBig"}


def module_for(seed, index, size=None, opts=None):
    rng = common.Rng(seed, stream=index + 1)
    sz = size if size is not None else 1 + rng.below(5)
    return gen.generate_module(rng, sz, opts), rng


def build_case(seed, index, n_args, size=None, opts=None, fuel=FUEL):
    m, rng = module_for(seed, index, size, opts)
    mods = pp.pp_modules(m)
    src = "\n".join("// ---- module %s\n%s" % (x["name"], x["src"]) for x in mods) if len(mods) > 1 else mods[0]["src"]
    adts = M.adt_table(m.adts)
    entries = []
    for e in m.entries:
        types = [t for _n, t in e.fn.params]
        argv = gen.gen_args(rng, types, n_args, m.adts, e.hints)
        enc, exp = [], []
        for tup in argv:
            enc.append([M.value_to_json(v, t, adts) for v, t in zip(tup, types)])
            exp.append(interp.run(m, e, list(tup), fuel))
        entries.append({"name": e.fn.name, "args": enc, "expected": exp, "values": argv})
    return {"index": index, "module": m, "src": src, "modules": mods, "entries": entries, "features": set(m.features), "feature_counts": dict(m.features)}


def cases(seed, n_modules, n_args, size=None, opts=None):
    """"modules": [{"name","kind","src"}] in dependency order (entries live in module "m"); "src" is the same text
    in one string. Yield {"src", "modules", "entries": [{"name", "args": [[data..]..], "expected": [("ok", data) | ("abort",) | ("fuel",)]}], "features"}."""
    for i in range(n_modules):
        c = build_case(seed, i, n_args, size, opts)
        yield c


def tracing_for(index, mode="cycle"):
    if mode == "cycle":
        return [TRACINGS[index % 3]]
    if mode == "all":
        return list(TRACINGS)
    return [mode]


# ------------------------------------------------------------------ explanation of known disagreement classes

# strictness deviations (at most one) and rewrite deviations (any subset); see interp.Interp for their meaning
STRICTNESS = [("call-by-need", ("lazy",)), ("call-by-need-expect-cast", ("lazy", "lazy_expect"))]
REWRITES = [("F2_list_tail_order", ("f2",)), ("F3_cast_cancel", ("f3",)), ("F3_cast_cancel_expect", ("f3x",)), ("F6_and_false", ("f6",))]
LABELS = [x[0] for x in STRICTNESS] + [x[0] for x in REWRITES]


def _candidates():
    """(label, deviation set), fewest deviations first. A label is the "+"-join of its atoms in the order of LABELS."""
    out = []
    for n in range(0, len(REWRITES) + 1):
        for rw in itertools.combinations(REWRITES, n):
            for st in ([None] + STRICTNESS if rw else STRICTNESS):
                atoms = ([st[0]] if st else []) + [x[0] for x in rw]
                dev = set(st[1] if st else ()) | set(d for x in rw for d in x[1])
                out.append(("+".join(atoms), dev))
    # fewest deviations first; among equally small sets, pure rewrites (the more specific explanation) before
    # strictness deviations
    out.sort(key=lambda x: (x[0].count("+"), 1 if any(x[0].startswith(s[0]) for s in STRICTNESS) else 0))
    return out


CANDIDATES = _candidates()


def classify(case, entry, k):
    """(kept for c01.py) the outcome of a call-by-need evaluation of the source"""
    m = case["module"]
    e = [x for x in m.entries if x.fn.name == entry["name"]][0]
    try:
        return interp.run(m, e, list(entry["values"][k]), FUEL, lazy=True)
    except Exception as ex:  # classification only
        return ("error", repr(ex))


def _norm_outcome(got):
    """driver result dict | drv.outcome tuple/list -> ("ok", data) | ("abort", variant) | None"""
    if isinstance(got, dict):
        got = drv.outcome(got)
    got = tuple(got)
    if got and got[0] in ("ok", "abort"):
        return got
    return None


def explain_case(case, entry, k, tracing, got):
    """Exact, stable label of the known deviation(s) that explain a disagreement, or None.
    SOUND: a label is only returned when re-interpreting the source under exactly the deviations it names
    (interp.Interp dev modes) reproduces the compiled outcome `got` (same Data value, or abort with a
    non-structural machine error). The fewest deviations that reproduce it win."""
    o = _norm_outcome(got)
    if o is None:
        return None
    if o[0] == "abort" and o[1] not in ABORTS_OK:
        return None  # structural machine errors are never "explained" (C06)
    m = case["module"]
    e = [x for x in m.entries if x.fn.name == entry["name"]][0]
    args = list(entry["values"][k])
    def same(r):
        return (o[0] == "ok" and r[0] == "ok" and r[1] == o[1]) or (o[0] == "abort" and r[0] == "abort")

    for label, dev in CANDIDATES:
        try:
            if "f2" not in dev:
                if same(interp.run(m, e, args, FUEL, dev=dev)):
                    return label
                continue
            # f2 is non-deterministic (any matching clause at a `when` with the trigger shape): explore the choices
            stack, tried = [[]], 0
            while stack and tried < 200:
                ch = stack.pop()
                tried += 1
                r, trace = interp.run_choices(m, e, args, FUEL, dev, ch)
                if same(r):
                    return label
                for i in range(len(ch), min(len(trace), 12)):
                    for alt in range(1, trace[i]):
                        stack.append(ch + [0] * (i - len(ch)) + [alt])
        except Exception:
            continue
    return None


def explain(seed, index, n_args, opts, entry_name, k, tracing, got_outcome, size=None):
    """explain_case for a case re-derived from (seed, index, n_args, opts): usable from another process.
    Runs in a big-stack thread (the interpreter recurses)."""
    res = []

    def work():
        c = build_case(seed, index, n_args, size, opts)
        e = [x for x in c["entries"] if x["name"] == entry_name][0]
        res.append(explain_case(c, e, k, tracing, got_outcome))

    threading.stack_size(256 * 1024 * 1024)
    t = threading.Thread(target=work)
    t.start()
    t.join()
    return res[0] if res else None


def known_compile_panic(msg):
    """compile-time panics already recorded in FINDINGS.md (matched by message shape)"""
    if "FreeUnique" in msg and "_curried" in msg:
        return "F5 FreeUnique(.._curried) shrinker.rs"
    if "FreeUnique" in msg and "_id_" in msg:
        return "F4 FreeUnique(<var>_id_N) shrinker.rs"
    if "gen_uplc.rs" in msg and "Option::unwrap()" in msg:
        return "F7 gen_uplc.rs unwrap on None (list clauses)"
    if "EvaluationFailure" in msg and "optimize/shrinker.rs" in msg:
        return "F8 constant folding of a failing builtin call (shrinker.rs unwrap)"
    if "TryFromBigIntError" in msg and "machine/runtime.rs" in msg:
        return "constant folding of a bytearray builtin with an out-of-range integer (C02/C10)"
    return None


# ------------------------------------------------------------------ command line


def main(argv=None):
    ap = argparse.ArgumentParser()
    ap.add_argument("--n", type=int, default=200)
    ap.add_argument("--seed", type=int, default=0)
    ap.add_argument("--size", type=int, default=None)
    ap.add_argument("--args", type=int, default=8)
    ap.add_argument("--tracing", default="cycle", help="cycle (index %% 3) | all | verbose-all | silent-all | compact-user | <level>-<scope>")
    ap.add_argument("--show-rejected", type=int, default=3)
    ap.add_argument("--show", type=int, default=10)
    ap.add_argument("--dump", default=None)
    ap.add_argument("--allow-hazard", action="store_true")
    ap.add_argument("--include-known", action="store_true", help="also generate the shapes that trigger recorded findings (FINDINGS.md)")
    ap.add_argument("--focus", default=None, help="bias the type pool (lists)")
    ap.add_argument("--shards", type=int, default=None)
    a = ap.parse_args(argv)
    opts = {"allow_hazard": a.allow_hazard, "include_known": a.include_known, "focus": a.focus}

    t0 = time.time()
    cs = list(cases(a.seed, a.n, a.args, a.size, opts))
    t_gen = time.time() - t0
    jobs = []
    for c in cs:
        ents = []
        for e in c["entries"]:
            keep = [i for i, x in enumerate(e["expected"]) if x[0] != "fuel"]
            e["sent"] = keep
            ents.append({"name": e["name"], "args": [e["args"][i] for i in keep]})
        jobs.append(drv.make_job(c["index"], c["modules"], ents, tracings=tracing_for(c["index"], a.tracing)))
    t1 = time.time()
    res = drv.run_many(jobs, shards=a.shards)
    t_run = time.time() - t1

    st = {"modules": len(cs), "rejected": 0, "panic": 0, "died": 0, "agree_value": 0, "agree_abort": 0, "fuel": 0, "disagree": 0, "other": 0}
    by_label = {}
    by_tracing = {}
    feats = {}
    disagreements = []
    panics = {}
    known_panics = {}
    rejected = []
    for c in cs:
        for f, n in c["feature_counts"].items():
            feats[f] = feats.get(f, 0) + 1
        r = res.get(c["index"], {})
        if "runs" not in r:
            st["died"] += 1
            rejected.append((c, r))
            continue
        for e in c["entries"]:
            st["fuel"] += sum(1 for x in e["expected"] if x[0] == "fuel")
        for run in r["runs"]:
            tr = run.get("tracing", "?")
            if "rejected" in run:
                st["rejected"] += 1
                rejected.append((c, run["rejected"]))
                continue
            for e, er in zip(c["entries"], run["entries"]):
                if "results" not in er:
                    msg = er.get("compile_panic", "")
                    known = known_compile_panic(msg)
                    if known:
                        st["known_compile_panic"] = st.get("known_compile_panic", 0) + 1
                        known_panics.setdefault(known, []).append(c["index"])
                        continue
                    st["panic"] += 1
                    disagreements.append((c, e, None, None, {k: v for k, v in er.items() if k in ("compile_panic", "harness_error")}, None, tr))
                    continue
                for k, got in zip(e["sent"], er["results"]):
                    exp = e["expected"][k]
                    o = drv.outcome(got)
                    if exp[0] == "ok" and o[0] == "ok" and o[1] == exp[1]:
                        st["agree_value"] += 1
                    elif exp[0] == "abort" and o[0] == "abort":
                        st["agree_abort"] += 1
                    elif o[0] == "other" and "panic" in got:
                        # the evaluator itself panicked (a uplc machine defect: properties C04/C10), not a C01 verdict
                        site = got["panic"].split(" @ ")[-1]
                        st["machine_panic"] = st.get("machine_panic", 0) + 1
                        panics.setdefault(site, []).append((c, e, k, exp, got))
                    elif o[0] == "other":
                        st["other"] += 1
                        disagreements.append((c, e, k, exp, got, None, tr))
                    else:
                        label = explain_case(c, e, k, tr, o)
                        why = label
                        if label is None:
                            tags = sorted(f for f in c["features"] if f.startswith("known:"))
                            if o[0] == "abort" and o[1] not in ABORTS_OK:
                                why = "UNEXPLAINED machine error %s" % o[1]
                            elif tags:
                                why = "UNEXPLAINED (module contains " + ",".join(tags) + ")"
                            else:
                                why = "UNEXPLAINED"
                        by_label[label or "unexplained"] = by_label.get(label or "unexplained", 0) + 1
                        by_tracing[tr] = by_tracing.get(tr, 0) + 1
                        st["disagree"] += 1
                        disagreements.append((c, e, k, exp, o, why, tr))

    total = st["agree_value"] + st["agree_abort"]
    new = by_label.get("unexplained", 0)
    print("== C01 run: seed=%d n=%d args=%d tracing=%s" % (a.seed, a.n, a.args, a.tracing))
    print("modules generated      : %d  (%.1f modules/min generation+interpretation)" % (st["modules"], 60.0 * st["modules"] / max(t_gen, 1e-9)))
    print("rejected by checker    : %d (%.1f%%)   driver died/timeouts: %d   compile panics: %d" % (st["rejected"], 100.0 * st["rejected"] / max(1, st["modules"]), st["died"], st["panic"]))
    print("cases agreed           : %d  (value %d, abort %d = %.1f%% aborts)  fuel-skipped %d  other %d" % (total, st["agree_value"], st["agree_abort"], 100.0 * st["agree_abort"] / max(1, total), st["fuel"], st["other"]))
    print("DISAGREEMENTS          : %d unexplained (new)  + %d explained by a recorded finding: %s" % (new, st["disagree"] - new, json.dumps({k: v for k, v in sorted(by_label.items()) if k != "unexplained"})))
    print("disagreements/tracing  : %s" % json.dumps(by_tracing, sort_keys=True))
    for key, idxs in sorted(known_panics.items()):
        print("known compile panic    : %s in %d entries (modules %s)" % (key, len(idxs), sorted(set(idxs))[:8]))
    for site, lst in sorted(panics.items()):
        c, e, k, exp, got = lst[0]
        print("machine panic (C04/C10) : %d cases at %s  e.g. module %d %s args %s: %s" % (len(lst), site, c["index"], e["name"], json.dumps(e["args"][k])[:200], got["panic"][:160]))
    print("driver wall            : %.1fs   generation wall: %.1fs" % (t_run, t_gen))
    print("feature coverage (modules using the feature):")
    line = []
    for f in sorted(feats):
        line.append("%s=%d" % (f, feats[f]))
    print("  " + "  ".join(line))
    if a.dump:
        os.makedirs(a.dump, exist_ok=True)
    for i, (c, rj) in enumerate(rejected[: a.show_rejected]):
        print("---- REJECTED module index %d: %s" % (c["index"], json.dumps(rj)[:1500]))
        if a.dump:
            with open(os.path.join(a.dump, "rejected_%d.ak" % c["index"]), "w") as f:
                f.write(c["src"])
    seen_mod = set()
    shown = 0
    # unexplained ones first
    disagreements.sort(key=lambda d: 0 if (d[5] is None or str(d[5]).startswith("UNEXPLAINED")) else 1)
    for c, e, k, exp, got, why, tr in disagreements:
        if a.dump and c["index"] not in seen_mod:
            with open(os.path.join(a.dump, "disagree_%d.ak" % c["index"]), "w") as f:
                f.write(c["src"])
        if c["index"] in seen_mod and shown >= a.show:
            continue
        seen_mod.add(c["index"])
        if shown < a.show:
            shown += 1
            print("---- DISAGREEMENT module index %d entry %s tracing %s%s" % (c["index"], e["name"], tr, "  [" + why + "]" if why else ""))
            print("args    : %s" % (json.dumps(e["args"][k]) if k is not None else "-"))
            print("expected: %s" % (json.dumps(exp),))
            print("got     : %s" % (json.dumps(got)[:600],))
            if not a.dump:
                print(c["src"])
    print("modules with a disagreement: %s" % sorted(seen_mod))
    return 1 if (new or st["panic"] or st["other"]) else 0


if __name__ == "__main__":
    threading.stack_size(512 * 1024 * 1024)
    rc = []
    t = threading.Thread(target=lambda: rc.append(main()))
    t.start()
    t.join()
    sys.exit(rc[0] if rc else 2)
