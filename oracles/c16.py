#!/usr/bin/env python3
"""C16 — property tests are reproducible and their counterexamples are real (see proptest/)."""
import os
import sys

here = os.path.dirname(os.path.abspath(__file__))
sys.path.insert(0, here)
import wrap
from proptest import run_c16  # noqa: E402

if __name__ == "__main__":
    wrap.run_component(
        "C16", "exploration", run_c16.run,
        rule="generated property tests (properties x fuzzers of an own fuzz library: constant, lenient-on-replay, data-dependent choice counts, list_of / list_while, such_that with forgotten redraws, crashing; labels) x the three expectations (none / fail / fail once) x seeds x max_successes; per run: PropertyTest::run vs run_n_times vs an independent from_seed -> sample -> eval loop vs a 15-line model of the expectations and a Python ground truth of the predicate; counterexample re-evaluated, regenerated from its recorded choices, compared shortlex with the first deciding case; outcome recomputed by in-process repeats, a rebuilt test, N threads and a second process; distinct = as counted by the component",
        floor={"evaluations": 3000},
        bins=("prop-run",),
        assumptions=[
            "oracles/proptest/model.py (expectation semantics from the documentation / CHANGELOG) and the Python ground-truth predicates are the trusted base",
            "a Seeded fuzzer answering None violates the framework's stated precondition and is excluded from the workload; stated for Plutus V3",
            "a per-job watchdog timeout is inconclusive (retried one seed per job), never a violation: a seed-dependent hang would show as persistent inconclusives, which fail the floor",
        ],
    )
