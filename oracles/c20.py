#!/usr/bin/env python3
"""C20 — malformed input is rejected with an error, not a crash.

Monitor: every entry point that takes untrusted bytes/text/JSON/Data is driven with
near-valid inputs (mutations, truncations, unknown names, huge length prefixes, deep
nesting) inside subprocess shards that have the stack of the real entry point (8 MiB
for the UPLC paths, 2 MiB rayon-worker stack for the Aiken parser/formatter).
Ok or Err are both fine; a caught panic, a dead shard (stack overflow / abort / OOM)
or super-linear blow-up inside the modest-input bound (<= 16 KiB, nesting <= 1024) is a
violation. A bare watchdog timeout is inconclusive; "loops" is decided from a growth
series of CPU time (rusage of a one-job subprocess), never from a stopwatch."""
import json
import os
import resource
import subprocess
import sys
import time

import common
import gen_uplc as G
import harvest
from common import Check, Rng, h

MODEST = 16 * 1024
MAX_NEST = 1024


# ----------------------------------------------------------------- mutators
def mutate_bytes(rng, b: bytes) -> bytes:
    b = bytearray(b)
    k = rng.below(10)
    if not b:
        return bytes(rng.bytes(1 + rng.below(8)))
    if k == 0:
        i = rng.below(len(b))
        b[i] ^= 1 << rng.below(8)
    elif k == 1:
        del b[rng.below(len(b)):]
    elif k == 2:
        i = rng.below(len(b))
        j = min(len(b), i + 1 + rng.below(8))
        del b[i:j]
    elif k == 3:
        i = rng.below(len(b))
        j = min(len(b), i + 1 + rng.below(16))
        b[i:i] = b[i:j]
    elif k == 4:
        i = rng.below(len(b))
        b[i] = rng.pick([0x00, 0xFF, 0x7F, 0x80, 0x5B, 0x9F, 0xBF, 0x5F])
    elif k == 5:
        i = rng.below(len(b))
        b[i:i] = rng.bytes(1 + rng.below(8))
    elif k == 6:
        # huge length prefixes (cbor bytes / array / map headers)
        i = rng.below(len(b))
        b[i:i + 1] = rng.pick([b"\x5b\xff\xff\xff\xff\xff\xff\xff\xff", b"\x9b\x7f\xff\xff\xff\xff\xff\xff\xff", b"\xbb\x00\x00\x00\x00\xff\xff\xff\xff", b"\x5a\xff\xff\xff\xff", b"\x7b\xff\xff\xff\xff\xff\xff\xff\xff"])
    elif k == 7:
        for _ in range(1 + rng.below(4)):
            i = rng.below(len(b))
            b[i] = rng.below(256)
    elif k == 8:
        b.reverse()
    else:
        i = rng.below(len(b))
        b = b[:i] + b[i:] * 2
    return bytes(b[:MODEST])


TOKENS = ["(", ")", "[", "]", "{", "}", ",", "..", "->", "|>", "<-", "=", "==", "\"", "#", "@", "_", "-", "!", "?", "when", "is", "if", "else", "fn", "let", "expect", "trace", "and", "or", "0x", "1_", "//", "///", "\\", "'", "<", ">", "::", ".", "0", "\x00", "é", "\U0001F600", "\t", "\r\n"]


def mutate_text(rng, s: str) -> str:
    if not s:
        return rng.pick(TOKENS)
    k = rng.below(9)
    i = rng.below(len(s))
    j = min(len(s), i + 1 + rng.below(12))
    if k == 0:
        return s[:i] + s[j:]
    if k == 1:
        return s[:i] + s[i:j] * 2 + s[j:]
    if k == 2:
        return s[:i] + rng.pick(TOKENS) + s[i:]
    if k == 3:
        return s[:i]
    if k == 4:
        a, b = sorted([rng.below(len(s)), rng.below(len(s))])
        return s[:i] + s[a:b][:40] + s[i:]
    if k == 5:
        return s[:i] + rng.pick(TOKENS) + s[j:]
    if k == 6:
        t = rng.pick(["(", "[", "{", "\"", "#\"", "@\""])
        return s[:i] + t + s[i:]
    if k == 7:
        return s.replace(rng.pick(["(", ")", "{", "}", "[", "]", ",", " "]), rng.pick(TOKENS), 1 + rng.below(3))
    return s[:i] + s[i:][::-1][: rng.below(20)] + s[j:]


def mutate_json(rng, v, depth=0):
    """structure-aware JSON mutation"""
    k = rng.below(12)
    if isinstance(v, dict) and v:
        key = rng.pick(sorted(v))
        if k == 0:
            v = dict(v)
            del v[key]
            return v
        if k == 1:
            v = dict(v)
            v[key] = rng.pick([None, 0, -1, 2**64, "", "x", [], {}, True, 1.5, "ff", "zz", {"$ref": "#/definitions/Nope"}, {"$ref": "#/definitions/" + key}])
            return v
        if k == 2:
            v = dict(v)
            v[rng.pick(["dataType", "anyOf", "fields", "index", "items", "keys", "values", "$ref", "title", "hash", "compiledCode", "parameters", "schema"])] = rng.pick([None, 0, "constructor", "list", "map", "bytes", "integer", "#pair", "#boolean", "#unit", "#list", [], {}])
            return v
        v = dict(v)
        v[key] = mutate_json(rng, v[key], depth + 1)
        return v
    if isinstance(v, list) and v:
        i = rng.below(len(v))
        if k == 0:
            return v[:i] + v[i + 1:]
        if k == 1:
            return v + [v[i]]
        v = list(v)
        v[i] = mutate_json(rng, v[i], depth + 1)
        return v
    if isinstance(v, str):
        if k < 4:
            return mutate_text(rng, v)
        return rng.pick([None, 0, [], {}, v + "0", v[:-1], "ZZ" + v])
    if isinstance(v, bool) or v is None:
        return rng.pick([0, "true", [], {}])
    if isinstance(v, (int, float)):
        return rng.pick([-1, 2**63, 2**64, 2**70, -2**70, 1.5, 1e400 if False else 1e300, "0", None, v + 1])
    return rng.pick([None, 0, "x"])


# ----------------------------------------------------------------- nesting families (modest: <= 16 KiB, depth <= 1024)
def uplc_nest(kind, d):
    if kind == "lam":
        return "(program 1.1.0 " + "(lam x " * d + "x" + ")" * d + ")"
    if kind == "delay":
        return "(program 1.1.0 " + "(delay " * d + "(con unit ())" + ")" * d + ")"
    if kind == "apply":
        return "(program 1.1.0 " + "[" * d + "(con unit ()) " + "(con unit ())] " * d + ")"
    if kind == "constr":
        return "(program 1.1.0 " + "(constr 0 " * d + "(con unit ())" + ")" * d + ")"
    if kind == "case":
        return "(program 1.1.0 " + "(case " * d + "(con unit ())" + " (con unit ()))" * d + ")"
    if kind == "data-list":
        return "(program 1.1.0 (con data (" + "List [" * d + "I 1" + "]" * d + ")))"
    if kind == "data-constr":
        return "(program 1.1.0 (con data (" + "Constr 0 [" * d + "I 1" + "]" * d + ")))"
    if kind == "type-list":
        return "(program 1.1.0 (con " + "(list " * d + "integer" + ")" * d + " " + "[" * d + "]" * d + "))"
    raise ValueError(kind)


UPLC_NEST = ["lam", "delay", "apply", "constr", "case", "data-list", "data-constr", "type-list"]


def aiken_nest(kind, d):
    if kind == "paren":
        return "fn f() {\n  " + "(" * d + "1" + ")" * d + "\n}\n"
    if kind == "list":
        return "fn f() {\n  " + "[" * d + "1" + "]" * d + "\n}\n"
    if kind == "tuple":
        return "fn f() {\n  " + "(1, " * d + "2" + ")" * d + "\n}\n"
    if kind == "call":
        return "fn f() {\n  " + "g(" * d + "1" + ")" * d + "\n}\n"
    if kind == "block":
        return "fn f() {\n  " + "{ " * d + "1" + " }" * d + "\n}\n"
    if kind == "if":
        return "fn f() {\n  " + "if True { " * d + "1" + " } else { 2 }" * d + "\n}\n"
    if kind == "when":
        return "fn f(x) {\n  " + "when x is { _ -> " * d + "1" + " }" * d + "\n}\n"
    if kind == "not":
        return "fn f() {\n  " + "!" * d + "True\n}\n"
    if kind == "neg":
        return "fn f() {\n  " + "-" * d + "1\n}\n"
    if kind == "binop":
        return "fn f() {\n  1" + " + 1" * d + "\n}\n"
    if kind == "pipe":
        return "fn f() {\n  1" + " |> g" * d + "\n}\n"
    if kind == "fn":
        return "fn f() {\n  " + "fn() { " * d + "1" + " }" * d + "\n}\n"
    if kind == "type":
        return "type T = " + "List<" * d + "Int" + ">" * d + "\n"
    if kind == "pattern-list":
        return "fn f(x) {\n  when x is {\n    " + "[" * d + "_" + "]" * d + " -> 1\n  }\n}\n"
    if kind == "pattern-ctor":
        return "fn f(x) {\n  when x is {\n    " + "Some(" * d + "_" + ")" * d + " -> 1\n  }\n}\n"
    if kind == "trace":
        return "fn f() {\n  " + "trace @\"a\"\n  " * d + "1\n}\n"
    if kind == "bytearray-list":
        return "const x = #[" + "1, " * d + "1]\n"
    raise ValueError(kind)


AIKEN_NEST = ["paren", "list", "tuple", "call", "block", "if", "when", "not", "neg", "binop", "pipe", "fn", "type", "pattern-list", "pattern-ctor", "trace", "bytearray-list"]


def cpu_of_one_job(binary, job, env, timeout):
    """CPU seconds (user+sys, from rusage) spent by a one-job driver process; None on timeout."""
    exe = common.bin_path(binary)
    p = subprocess.Popen([exe], stdin=subprocess.PIPE, stdout=subprocess.PIPE, stderr=subprocess.DEVNULL, env=dict(os.environ, **env))
    try:
        t0 = time.time()
        out, _ = p.communicate((json.dumps(job) + "\n").encode(), timeout=timeout)
        _, status, ru = os.wait4(p.pid, os.WNOHANG) if False else (0, 0, None)
    except subprocess.TimeoutExpired:
        p.kill()
        p.wait()
        return None, None
    # rusage of children accumulates; take the delta around this child instead
    return out, time.time() - t0


def child_cpu(binary, job, env, timeout):
    before = resource.getrusage(resource.RUSAGE_CHILDREN)
    out, wall = cpu_of_one_job(binary, job, env, timeout)
    after = resource.getrusage(resource.RUSAGE_CHILDREN)
    if out is None:
        return None, None
    cpu = (after.ru_utime + after.ru_stime) - (before.ru_utime + before.ru_stime)
    try:
        res = json.loads(out.decode().splitlines()[0]) if out.strip() else {"died": True}
    except (json.JSONDecodeError, IndexError):
        res = {"died": True}
    return cpu, res


def growth_series(binary, mk_job, depths, env, budget_s=25.0):
    """[(depth, cpu seconds)] until a point exceeds budget_s (or times out)."""
    series = []
    for d in depths:
        cpu, res = child_cpu(binary, mk_job(d), env, timeout=budget_s * 4)
        if cpu is None:
            series.append((d, None))
            break
        series.append((d, round(cpu, 3)))
        if cpu > budget_s:
            break
    return series


def exponential(series):
    """True iff CPU time at least doubles (x1.8 tolerance) over >= 4 consecutive steps, the
    last measured point is >= 1 s, and linear-in-steps extrapolation of that ratio to the
    modest bound exceeds a minute by far."""
    # only constant, small increments of the nesting depth count: a polynomial also
    # "doubles" when the depth itself doubles
    pts = [(d, t) for d, t in series if t is not None and t > 0.05]
    run18 = run30 = best18 = best30 = 0
    for (d0, t0), (d1, t1) in zip(pts, pts[1:]):
        if d1 - d0 > 2:
            run18 = run30 = 0
            continue
        run18 = run18 + 1 if t1 >= 1.8 * t0 else 0
        run30 = run30 + 1 if t1 >= 3.0 * t0 else 0
        best18 = max(best18, run18)
        best30 = max(best30, run30)
    small_steps = [(d, t) for (d, t) in series if d <= 24]
    timed_out = any(t is None for _, t in small_steps)
    last = max([t for _, t in small_steps if t is not None] or [0])
    return (best18 >= 4 or best30 >= 3) and (last >= 1.0 or timed_out)


def main():
    a = common.parse_args(sys.argv[1:])
    if not a.no_build:
        common.build(["uplc-run", "aiken-run"])
    chk = Check("C20", "exploration", a.tier)
    rng = Rng(chk.seed, 20)
    quick = a.tier != "thorough"
    names = [b["name"] for b in G.builtin_table()]
    scale = 1 if quick else 20

    # ---- seeds: valid encodings
    seed_terms = [G.gen_term(rng, 2 + rng.below(40), names, 0, bls=False, encodings=True) for _ in range(150)]
    cj = [{"id": i, "op": "codec", "term": t} for i, t in enumerate(seed_terms)]
    pj = [{"id": i, "op": "pretty", "term": t} for i, t in enumerate(seed_terms)]
    cres = common.run_jobs("uplc-run", cj)
    pres = common.run_jobs("uplc-run", pj)
    flats = [bytes.fromhex(r["flat"]) for r in cres.values() if "flat" in r]
    cbors = [bytes.fromhex(r["cbor"]) for r in cres.values() if "cbor" in r]
    texts = [p["text"] for r in pres.values() for p in r.get("paths", []) if p.get("path") == "name" and "text" in p]
    for f in harvest.conformance_files("v3")[:: (40 if quick else 4)]:
        try:
            texts.append(open(f).read())
        except OSError:
            pass

    # ---- UPLC side (8 MiB stack: what `aiken uplc ...` has on the main thread)
    ujobs = []

    def uj(job, fam):
        job["id"] = len(ujobs)
        job["_fam"] = fam
        job["tree"] = False  # verdict only: deep result trees are of no use here
        ujobs.append(job)

    for _ in range(1500 * scale):
        src = rng.pick(flats) if flats else b""
        m = src
        for _ in range(1 + rng.below(3)):
            m = mutate_bytes(rng, m)
        uj({"op": "decode", "kind": "flat", "bytes": m.hex()}, "flat-mutant")
    # every prefix of programs that carry a constant of every type (plain, in lists, in pairs),
    # placed behind elements of odd bit width (7-bit builtin tags, 1-bit list markers of
    # constr / case) so that the cut falls on every bit alignment of the constant's fields
    consts = [["con", "bool", True], ["con", "unit", None], ["con", "integer", "-300"], ["con", "bytestring", "00ff"], ["con", "string", "aé"], ["con", "data", {"l": [{"i": "1"}]}],
              ["con", ["list", "bool"], [True, False, True, True, False]], ["con", ["list", "unit"], [None, None]], ["con", ["list", "integer"], ["1", "-1"]], ["con", ["list", "data"], [{"i": "1"}, {"b": ""}]],
              ["con", ["pair", "bool", "bool"], [True, False]], ["con", ["list", ["pair", "bool", "bool"]], [[True, False], [False, True]]], ["con", ["pair", ["list", "bool"], "unit"], [[True], None]],
              ["con", ["list", ["list", "bool"]], [[True], [], [False, False]]], ["con", ["pair", "integer", "bytestring"], ["7", "ab"]], ["con", ["list", "string"], ["x", ""]]]
    wrappers = [lambda c: c, lambda c: ["app", ["builtin", "headList"], c], lambda c: ["constr", 0, [c]], lambda c: ["case", ["constr", 0, []], [c]],
                lambda c: ["app", ["app", ["builtin", "mkCons"], c], c], lambda c: ["lam", ["constr", 1, [c, c]]], lambda c: ["delay", ["app", ["force", ["builtin", "fstPair"]], c]]]
    pterms = [w(c) for c in consts for w in wrappers]
    pres2 = common.run_jobs("uplc-run", [{"id": i, "op": "codec", "term": t} for i, t in enumerate(pterms)])
    for r in pres2.values():
        if "flat" not in r:
            continue
        fb = bytes.fromhex(r["flat"])
        for cut in range(len(fb)):
            uj({"op": "decode", "kind": "flat", "bytes": fb[:cut].hex()}, "flat-every-prefix")
            if cut % 3 == 0:  # the same prefix inside a well-formed CBOR byte string (from_cbor / from_hex path)
                hdr = bytes([0x40 + cut]) if cut < 24 else bytes([0x58, cut]) if cut < 256 else bytes([0x59]) + cut.to_bytes(2, "big")
                uj({"op": "decode", "kind": "cbor", "bytes": (hdr + fb[:cut]).hex()}, "flat-prefix-in-cbor")
        cb = bytes.fromhex(r["cbor"])
        for cut in range(max(0, len(cb) - 6), len(cb)):
            uj({"op": "decode", "kind": "cbor", "bytes": cb[:cut].hex()}, "cbor-prefix")
    for _ in range(700 * scale):
        src = rng.pick(cbors) if cbors else b""
        m = mutate_bytes(rng, src)
        uj({"op": "decode", "kind": "cbor", "bytes": m.hex()}, "cbor-mutant")
        m2 = mutate_text(rng, src.hex()).encode("utf8", "replace")[:MODEST]
        uj({"op": "decode", "kind": "hex", "bytes": m2.hex()}, "hex-mutant")
    for _ in range(500 * scale):
        uj({"op": "decode", "kind": rng.pick(["flat", "cbor"]), "bytes": rng.bytes(rng.below(64)).hex()}, "random-bytes")
    for _ in range(1500 * scale):
        t = rng.pick(texts)
        for _ in range(1 + rng.below(3)):
            t = mutate_text(rng, t)
        uj({"op": "parse", "text": t[:MODEST], "also_term": True}, "uplc-text-mutant")
    for nm in ["foo", "verifySignature", "addinteger", "AddInteger", "", "bls12_381_G1_add", "bls12_381_g1_add", "x" * 300]:
        uj({"op": "parse", "text": f"(program 1.1.0 (builtin {nm}))"}, "unknown-builtin")
        uj({"op": "parse", "text": f"(program 1.1.0 (con {nm} 1))"}, "unknown-type")
    for kind in UPLC_NEST:
        for d in [1, 16, 128, 512, MAX_NEST]:
            t = uplc_nest(kind, d)
            if len(t) <= MODEST:
                uj({"op": "parse", "text": t}, f"uplc-nest-{kind}")
    # deep flat encodings: nested lam/delay/force via the encoder itself, then decoded + evaluated
    for d in [16, 128, 512, MAX_NEST]:
        for wrap in ("lam", "delay", "force"):
            t = ["con", "unit", None] if wrap != "lam" else ["var", 1]
            for _ in range(d):
                t = [wrap, t]
            uj({"op": "codec", "term": t}, f"flat-nest-{wrap}")
    # plutus_data(bytes)
    data_seeds = []
    for _ in range(60):
        d = G.gen_data(rng, 3, encodings=True)
        data_seeds.append(d)
    dj = [{"id": i, "op": "codec", "term": ["con", "data", d]} for i, d in enumerate(data_seeds)]
    for _ in range(600 * scale):
        m = mutate_bytes(rng, rng.bytes(1 + rng.below(40)))
        uj({"op": "data", "bytes": m.hex()}, "plutus-data-bytes")
    for d in [16, 128, 512, MAX_NEST]:
        uj({"op": "data", "bytes": ("9f" * d + "01" + "ff" * d)}, "plutus-data-nest")
        uj({"op": "data", "bytes": ("d8799f" * d + "01" + "ff" * d)}, "plutus-data-nest")
        uj({"op": "data", "bytes": ("81" * d + "01")}, "plutus-data-nest")

    ures = common.run_jobs("uplc-run", [{k: v for k, v in j.items() if not k.startswith("_")} for j in ujobs], env={"VH_STACK_MB": "8"}, per_job_timeout=120)

    def judge(j, r, entry):
        fam = j["_fam"]
        chk.count("fam:" + fam)
        inp = {k: v for k, v in j.items() if not k.startswith("_") and k != "id"}
        if "harness_error" in r:
            chk.inconc("harness_error:" + str(r["harness_error"])[:40])
            return
        if "timeout" in r:
            chk.inconc(f"watchdog:{fam}")
            return
        if "died" in r:
            chk.violation(f"C20|{entry}|{fam}|process-died", {"input": inp, "observed": r, "note": "stack overflow / abort inside the modest-input bound"})
            return
        pan = r.get("panic")
        if not pan:
            for p in r.get("paths", []):
                pan = pan or p.get("parse_panic")
        if pan:
            loc = pan.split(" @ ")[-1]
            chk.violation(f"C20|{entry}|panic|{loc}", {"input": inp, "panic": pan})
            return
        chk.held(h(inp), nontrivial=True, sample={"family": fam, "input": {k: (v[:200] if isinstance(v, str) else v) for k, v in inp.items()}, "outcome": {k: (v if not isinstance(v, (dict, list)) else "...") for k, v in r.items() if k != "id"}} if j["id"] % 911 == 0 else None)
        if any(str(v) == "ok" for v in r.values()) or r.get("program") == "ok" or "data" in r:
            chk.count("accepted_inputs")
        else:
            chk.count("rejected_inputs")

    for j in ujobs:
        judge(j, ures.get(j["id"], {}), "uplc")

    # ---- Aiken side (2 MiB: the rayon worker stack the parser runs on in `aiken check`)
    ak_seeds = [s for _, s in harvest.shipped_ak_files()] + [s for _, s in harvest.raw_sources(harvest.TEST_FILES + harvest.SURFACE_FILES)] + [s for _, s in harvest.parser_snippets()]
    ak_seeds = [s for s in ak_seeds if len(s) <= MODEST]
    chk.count("aiken_seed_sources", len(ak_seeds))
    ajobs = []

    def aj(job, fam):
        job["id"] = len(ajobs)
        job["_fam"] = fam
        ajobs.append(job)

    for _ in range(2500 * scale):
        t = rng.pick(ak_seeds)
        for _ in range(1 + rng.below(3)):
            t = mutate_text(rng, t)
        aj({"op": "fmt", "src": t[:MODEST]}, "aiken-text-mutant")
    for _ in range(200 * scale):
        aj({"op": "fmt", "src": "".join(rng.pick(TOKENS + [" ", "\n", "x", "Foo", "1"]) for _ in range(rng.below(60)))}, "aiken-token-soup")
    # nesting families at depths that are known to terminate quickly; deeper points are
    # probed by the growth series below
    for kind in AIKEN_NEST:
        for d in [1, 4, 8]:
            aj({"op": "fmt", "src": aiken_nest(kind, d)}, f"aiken-nest-{kind}")
    ares = common.run_jobs("aiken-run", [{k: v for k, v in j.items() if not k.startswith("_")} for j in ajobs], env={"VH_STACK_MB": "2"}, per_job_timeout=180)
    for j in ajobs:
        judge(j, ares.get(j["id"], {}), "aiken")

    # growth series per nesting family (CPU time of a one-job process)
    series_out = {}
    for kind in AIKEN_NEST:
        depths = [8, 10, 12, 14, 16, 18, 20, 22, 24, 32, 64, 128] + ([] if quick else [256, 512, MAX_NEST])
        depths = [d for d in depths if len(aiken_nest(kind, d)) <= MODEST]
        ser = growth_series("aiken-run", lambda d: {"id": 0, "op": "fmt", "src": aiken_nest(kind, d)}, depths, {"VH_STACK_MB": "2"}, budget_s=6.0 if quick else 30.0)
        series_out[kind] = ser
        chk.count("growth_series_points", len(ser))
        # re-run the deepest completed point to see whether the shard died there
        last_d = [d for d, t in ser if t is not None]
        inp = {"family": f"aiken-nest-{kind}", "series_depth_cpu_s": ser}
        if exponential(ser):
            chk.violation(f"C20|aiken|nesting-{kind}|exponential-time", {**inp, "example": aiken_nest(kind, 24) if len(aiken_nest(kind, 24)) < 400 else "", "note": "CPU time at least doubles per +2 nesting levels over >= 4 consecutive points; the modest bound (depth 1024) is unreachable"})
            continue
        if last_d and last_d[-1] == depths[-1]:
            chk.count("deepest_nesting_reached:" + str(depths[-1]))
            cpu, res = child_cpu("aiken-run", {"id": 0, "op": "fmt", "src": aiken_nest(kind, depths[-1])}, {"VH_STACK_MB": "2"}, 300)
            if res is not None and "died" in res:
                chk.violation(f"C20|aiken|nesting-{kind}|process-died", {**inp, "depth": depths[-1], "note": "stack overflow on the 2 MiB stack inside the modest bound"})
                continue
            if res is not None and res.get("panic"):
                chk.violation(f"C20|aiken|panic|{res['panic'].split(' @ ')[-1]}", {**inp, "panic": res["panic"]})
                continue
            chk.held(h(["series", kind]), sample=None)
        elif any(t is None for _, t in ser) or (ser and ser[-1][1] is not None and ser[-1][1] > (6.0 if quick else 30.0)):
            chk.inconc(f"slow-but-not-proven-exponential:{kind}")
        else:
            chk.held(h(["series", kind]))
    # UPLC nesting growth (text + flat decode): cheap, linear expected
    for kind in UPLC_NEST:
        ser = growth_series("uplc-run", lambda d: {"id": 0, "op": "parse", "tree": False, "text": uplc_nest(kind, d)}, [d for d in [16, 64, 256, MAX_NEST] if len(uplc_nest(kind, d)) <= MODEST], {"VH_STACK_MB": "8"}, budget_s=10.0)
        series_out["uplc-" + kind] = ser
        if exponential(ser):
            chk.violation(f"C20|uplc|nesting-{kind}|exponential-time", {"series_depth_cpu_s": ser})

    # ---- JSON / TOML / Data loaders
    bp_srcs = [
        "pub type P { a: Int, b: ByteArray }\npub type Q { A  B(Int, List<P>)  C { x: Option<Bool>, y: Pairs<Int, ByteArray> } }\nvalidator foo(p: P, n: Int, q: Q) {\n  spend(datum: Option<Q>, redeemer: (Int, ByteArray), _o: Data, _self: Data) {\n    expect Some(_d) = datum\n    redeemer.1st == n + p.a && q == q\n  }\n  mint(r: List<Int>, _p: ByteArray, _self: Data) { r == [] }\n  else(_) { fail }\n}\n",
        "validator bar {\n  withdraw(r: Data, _c: Data, _self: Data) { r == r }\n  else(_) { fail }\n}\n",
    ]
    bjobs = [{"id": i, "op": "blueprint", "modules": [{"name": "m", "kind": "validator", "src": s}]} for i, s in enumerate(bp_srcs)]
    bres = common.run_jobs("aiken-run", bjobs, per_job_timeout=120)
    blueprints = [r["blueprint"] for r in bres.values() if "blueprint" in r]
    if not blueprints:
        chk.inconc("no-seed-blueprint")
    ljobs = []

    def lj(job, fam):
        job["id"] = len(ljobs)
        job["_fam"] = fam
        ljobs.append(job)

    for bp in blueprints:
        lj({"op": "json_load", "kind": "blueprint", "text": json.dumps(bp)}, "json-valid")
        for _ in range(700 * scale):
            m = bp
            for _ in range(1 + rng.below(3)):
                m = mutate_json(rng, m)
            lj({"op": "json_load", "kind": "blueprint", "text": json.dumps(m)}, "json-blueprint-mutant")
        for _ in range(150 * scale):
            lj({"op": "json_load", "kind": "blueprint", "text": mutate_text(rng, json.dumps(bp))[:MODEST * 4]}, "json-text-mutant")
        for v in bp["validators"]:
            for _ in range(100 * scale):
                lj({"op": "json_load", "kind": "validator", "text": json.dumps(mutate_json(rng, v))}, "json-validator-mutant")
        for name, sch in bp.get("definitions", {}).items():
            for _ in range(40 * scale):
                lj({"op": "json_load", "kind": "schema", "text": json.dumps(mutate_json(rng, sch))}, "json-schema-mutant")
                lj({"op": "json_load", "kind": "parameter", "text": json.dumps(mutate_json(rng, {"title": "p", "schema": sch}))}, "json-parameter-mutant")
        # apply arbitrary Data as a parameter (never panic)
        for _ in range(200 * scale):
            lj({"op": "apply", "blueprint": bp, "steps": [{"module": None, "validator": bp["validators"][0]["title"].split(".")[1], "param": G.gen_data(rng, 3)}], "save_load": False}, "apply-arbitrary-data")
        # ... and the same on mutated blueprints: a file that loads but is inconsistent (a
        # definition set to null, a dangling $ref, a parameter schema of another kind, broken
        # compiledCode) must be refused by `blueprint apply`, not crash it
        conforming = {"c": "0", "f": [{"i": "1"}, {"b": ""}]}
        vname = bp["validators"][0]["title"].split(".")[1]
        for i in range(500 * scale):
            m = bp
            if i % 5 == 0 and isinstance(m.get("definitions"), dict) and m["definitions"]:
                m = dict(m)
                m["definitions"] = dict(m["definitions"])
                m["definitions"][rng.pick(sorted(m["definitions"]))] = rng.pick([None, {}, {"$ref": "#/definitions/Nope"}])
            else:
                for _ in range(1 + rng.below(2)):
                    m = mutate_json(rng, m)
            lj({"op": "apply", "blueprint": m, "steps": [{"module": None, "validator": vname, "param": conforming if i % 2 else G.gen_data(rng, 2)}], "save_load": True}, "apply-on-mutated-blueprint")
    for d in [16, 64, 120, 200, MAX_NEST]:
        lj({"op": "json_load", "kind": "schema", "text": '{"dataType":"list","items":' * d + '{"dataType":"integer"}' + "}" * d}, "json-schema-nest")
        lj({"op": "json_load", "kind": "blueprint", "text": "[" * d + "]" * d}, "json-nest")
    toml_seed = 'name = "aiken-lang/x"\nversion = "0.0.0"\ncompiler = "v1.1.23"\nplutus = "v3"\nlicense = "Apache-2.0"\ndescription = "d"\n\n[repository]\nuser = "a"\nproject = "b"\nplatform = "github"\n\n[[dependencies]]\nname = "aiken-lang/stdlib"\nversion = "v2"\nsource = "github"\n\n[config.default]\nfoo = 1\nbar = { bytes = "00", encoding = "hex" }\n'
    lj({"op": "json_load", "kind": "config", "text": toml_seed}, "toml-valid")
    for _ in range(600 * scale):
        t = toml_seed
        for _ in range(1 + rng.below(3)):
            t = mutate_text(rng, t)
        lj({"op": "json_load", "kind": "config", "text": t}, "toml-mutant")
    lres = common.run_jobs("aiken-run", [{k: v for k, v in j.items() if not k.startswith("_")} for j in ljobs], env={"VH_STACK_MB": "8"}, per_job_timeout=120)
    for j in ljobs:
        r = lres.get(j["id"], {})
        if j["op"] == "apply":
            # unwrap the per-step verdict
            st = (r.get("steps") or [{}])[0] if "steps" in r else r
            judge(j, st if "panic" in st else r, "blueprint-apply")
        else:
            judge(j, r, "loader")
    if not quick:
        # sanitizer lanes: Miri on the flat decoder fed mutants (manual bit arithmetic),
        # valgrind memcheck on BLS point decoding of attacker bytes
        import lanes

        lanes.miri(chk, "C20", "decode", [chk.seed * 100 + i for i in range(16)], 40)
        lanes.valgrind(chk, "C20", "ffi-decoding", lanes.ffi_jobs(Rng(chk.seed, 2020), 300))
    chk.assumptions = [
        "modest input = at most 16 KiB and nesting depth at most 1024; stacks: 8 MiB (UPLC/JSON paths, the CLI main thread) and 2 MiB (Aiken parser/formatter on a rayon worker)",
        "a watchdog timeout alone is inconclusive; non-termination-in-practice is decided only from a CPU-time growth series (>= 4 consecutive doublings)",
    ]
    chk.finish(
        rule="mutants (bit/byte/range/length-prefix/token/structure-aware JSON) of valid flat/CBOR/hex encodings, UPLC texts, shipped and harvested Aiken sources, generated blueprints and aiken.toml, plus nesting families up to depth 1024; distinct = hash of the input; every input is non-trivial",
        floor={"evaluations": 5000, "aiken_seed_sources": 100, "growth_series_points": 30},
        extra_coverage={"growth_series_depth_cpu_s": series_out},
    )


if __name__ == "__main__":
    main()
