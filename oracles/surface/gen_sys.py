"""Deterministic (seed-independent) enumeration of the surface syntax: every module is one
small definition exercising ONE production (or one pair), so that a formatter defect shows
up unmasked and minimisation is cheap.  `systematic()` -> [(source, {tags})]."""
from .gen import BINOPS, G1, G2

OPERANDS = ["a", "1", "f(x)", "a.b", "t.1st", "Foo(1)", "[1, 2]", "{ a }", "(a, b)", "-a", "!a", "x?"]


def fn(body, name="f"):
    return f"fn {name}() {{\n  {body}\n}}\n"


def binop_pairs():
    out = []
    for o1 in BINOPS:
        for o2 in BINOPS:
            forms = {
                "flat": f"a {o1} b {o2} c",
                "left-paren": f"(a {o1} b) {o2} c",
                "right-paren": f"a {o1} (b {o2} c)",
                "left-brace": f"{{ a {o1} b }} {o2} c",
                "right-brace": f"a {o1} {{ b {o2} c }}",
            }
            for k, e in forms.items():
                out.append((fn(e), {f"sys:binop-pair:{o1}:{o2}:{k}"}))
    # three operators (associativity chains) for a subset
    for o1 in BINOPS:
        for o2 in ["||", "&&", "==", "|>", "-", "*"]:
            for o3 in ["&&", "<", "|>", "+", "/"]:
                out.append((fn(f"a {o1} b {o2} c {o3} d"), {f"sys:binop-triple:{o1}:{o2}:{o3}"}))
                out.append((fn(f"a {o1} (b {o2} c) {o3} d"), {f"sys:binop-triple-mid-paren:{o1}:{o2}:{o3}"}))
    return out


def unary_forms():
    out = []
    for u in ["-", "!"]:
        for o in OPERANDS + ["(a + b)", "(a && b)", "(a |> b)", "(a == b)", "{ a + b }", "{\n let z = 1\n z\n }", "if a { 1 } else { 2 }", "when a is { _ -> 1 }", "fn(z) { z }(1)", "Foo { a: 1 }", "m.Foo", "0xff", "1_000", '@"s"', "(todo)", "(fail)", "and { a, b }", "a.b.c(d)"]:
            out.append((fn(u + o), {f"sys:unary:{u}:{o.split()[0][:12]}"}))
            for b in ["+", "-", "*", "==", "&&", "||", "|>", "<"]:
                out.append((fn(f"{u}{o} {b} c"), {f"sys:unary-left:{u}:{b}"}))
                out.append((fn(f"c {b} {u}{o}"), {f"sys:unary-right:{u}:{b}"}))
                out.append((fn(f"{u}({o} {b} c)"), {f"sys:unary-over:{u}:{b}"}))
        for u2 in ["-", "!"]:
            out.append((fn(f"{u}{u2}a"), {f"sys:unary-double:{u}{u2}"}))
            out.append((fn(f"{u}({u2}a)"), {f"sys:unary-double-paren:{u}{u2}"}))
            out.append((fn(f"{u}{u2}{u}a"), {f"sys:unary-triple:{u}{u2}{u}"}))
    out.append((fn("a - -1"), {"sys:minus-negative-literal"}))
    out.append((fn("a\n  -1"), {"sys:newline-minus-sequence"}))
    out.append((fn("a - 1"), {"sys:minus"}))
    out.append((fn("a\n  - 1"), {"sys:newline-minus-space"}))
    return out


def chains():
    """postfix chains on every kind of head (the formatter must keep the head grouped)"""
    heads = ["a", "(a + b)", "(a |> b)", "(-a)", "(!a)", "{ a }", "(a == b)", "(a && b)", "f(x)", "a.b", "t.1st", "(a, b)", "[1]", "Foo(1)", "Foo { a: 1 }", "m.Foo", "(fn(z) { z })", "fn(z) { z }",
             "(if a { b } else { c })", "(when a is { _ -> b })", "{\n let z = 1\n z\n }", "(a?)", "(todo)", '(fail @"x")', "and { a, b }", "(a |> f(_, 1))", "(f(_))", '@"s"', '"b"', "1", "(1)", "Pair(a, b)", "Foo { ..a, b: 1 }"]
    tails = [".c", ".1st", "(c)", "()", "?", ".c(d)", "(c)(d)", ".2nd.1st", "(_, c)", "(c: d)"]
    out = []
    for h in heads:
        for t in tails:
            out.append((fn(h + t), {f"sys:chain:{h[:14]}:{t}"}))
    return out


def pipes():
    rhs = ["f", "f()", "f(b)", "f(_)", "f(_, b)", "f(b, _)", "f(b, _, c)", "f(x: _)", "f(x: _, y: b)", "f(y: b, x: _)", "f(b, x: _)", "f(_x)", "f(_x, b)", "f(_, _)", "m.f", "m.f(b)", "m.f(_, b)", "fn(z) { z }", "fn(z) { z }(b)",
           "(f)", "(f(b))", "{ f }", "Foo", "Foo(_)", "Foo(b)", "Foo(_, b)", "Foo { x: _ }", "Some", "f(b)(c)", "f(_)(c)", "a.f", "a.f(b)", "t.1st", "if c { f } else { g }", "when c is { _ -> f }", "(g |> h)", "f(g |> h)", "(f |> g)(b)",
           "-f", "!f", "f?", "f(b)?", "f && g", "f == g", "f + g", "(f + g)", "f(fn(z) { z })", "f(_, fn(z) { z })", "f(_, [1, 2])", "f(_, g(b))", "f(_, when c is { _ -> 1 })", "f(_, if c { 1 } else { 2 })", "f(_, { let z = 1\n z })", "f(b, ..)"]
    out = []
    for r in rhs:
        out.append((fn(f"a |> {r}"), {f"sys:pipe-into:{r[:22]}"}))
        out.append((fn(f"a\n  |> {r}\n  |> g"), {f"sys:pipe-multiline-into:{r[:22]}"}))
        out.append((fn(f"let z = a |> {r}\n  z"), {f"sys:pipe-in-let:{r[:22]}"}))
    for lhs in ["a + b", "(a + b)", "a == b", "a && b", "a || b", "-a", "!a", "(a |> b)", "a |> b", "{ a }", "if a { b } else { c }", "when a is { _ -> b }", "fn(z) { z }", "f(_)", "f(_, 1)", "a?", "todo", "(todo)", "[a, b]", "(a, b)", "Foo { a: 1 }", "{\n let z = 1\n z\n }"]:
        out.append((fn(f"{lhs} |> f"), {f"sys:pipe-from:{lhs[:18]}"}))
        out.append((fn(f"{lhs}\n  |> f(_, 1)"), {f"sys:pipe-from-capture:{lhs[:18]}"}))
    return out


def captures():
    out = []
    for n in range(1, 5):
        for pos in range(n):
            for hole in ["_", "_x", "_Foo"] + (["_a_b"] if n <= 2 else []):
                for style in ("plain", "labelled-hole", "labelled-others", "record", "qualified", "record-qualified"):
                    args = [f"a{i}" for i in range(n)]
                    if style == "labelled-others":
                        args = [f"l{i}: a{i}" for i in range(n)]
                    args[pos] = hole if style not in ("labelled-hole", "labelled-others") else f"l{pos}: {hole}"
                    f = {"plain": "f", "labelled-hole": "f", "labelled-others": "f", "record": "Foo", "qualified": "m.f", "record-qualified": "m.Foo"}[style]
                    out.append((fn(f"{f}({', '.join(args)})"), {f"sys:capture:{style}:{pos}of{n}:{hole}"}))
    for body in ["f(_, _)", "f(_a, _b)", "f(_, g(_))", "f(g(_), _)", "f(_)(a)", "f(_).a", "f(_)?", "f(_) + 1", "-f(_)", "!f(_)", "let g = f(_, 1)\n  g", "[f(_), g(_)]", "(f(_), 1)", "f(a, _) |> g", "g(f(_, 1))", "g(h: f(_, 1))", "Foo { a: f(_) }",
                 "Foo { a: _ }", "Foo { a: _, b: True }", "Foo { a: 1, b: _ }", "Foo { a: _x }", "m.Foo { a: _ }", "Foo(a: _)", "Foo(_, b: 1)", "Foo { a: _, b: _ }", "f(when a is { _ -> _b })", "f(_, fn(z) { z })", "f(fn(z) { z }, _)", "f(_, [1, 2, 3])", "f(_, g(1))", "f(_, { a })",
                 "f(_, if a { 1 } else { 2 })", "f(_, when a is { _ -> 1 })", "f(_, {\n let z = 1\n z\n })", "f(_x, fn(z) { z })", "f(_a_b, [1])"]:
        out.append((fn(body), {f"sys:capture-misc:{body[:24]}"}))
    return out


def records():
    out = []
    for c in ["Foo", "m.Foo", "T.Foo", "m.T.Foo"]:
        for body in ["", "()", "(1)", "(1, 2)", "(a, b,)", " {}", " { a: 1 }", " { a: 1, b: 2 }", " { a }", " { a, b }", " { a, b: 2 }", " { a: a }", " { a: a, b }", " { a: 1, }", "(a: 1)", "(a: 1, 2)", " { a: b.c }", " { a: Foo { b: 1 } }", " { a: [1, 2], b: (1, 2) }",
                     " { a: fn(z) { z } }", " { a: if x { 1 } else { 2 } }", " { a: when x is { _ -> 1 } }", " { a: { let z = 1\n z } }", " { a: -1, b: !c }", " { a: 1 + 2 }", " { a: x |> f }", " { a: todo }", "(todo)", "(fn(z) { z })"]:
            out.append((fn(c + body), {f"sys:record:{c}:{body.strip()[:18]}"}))
    for c in ["Foo", "m.Foo"]:
        for body in ["..x", "..x, a: 1", "..x, a", "..x, a, b: 2", "..x, a: 1,", "..f(x), a: 1", "..x.y, a: 1", "..(x), a: 1", "..{ x }, a: 1", "..x, a: { let z = 1\n z }", "..x, a: b |> c", "..x, a: -1", "..if c { x } else { y }, a: 1", "..x |> f, a: 1", "..x + y, a: 1", "..Foo { ..y, b: 2 }, a: 1"]:
            out.append((fn(c + " { " + body + " }"), {f"sys:record-update:{c}:{body[:18]}"}))
    return out


PATTERNS = ["x", "_", "_x", "_a_b", "1", "-1", "0xff", "-0xff", "1_000", "-1_000", "0", '#"ff00"', '#"FF"', '#""', '""', '"utf8 \\" text"', "#[1, 2, 255]", "#[0x01, 0xff]", "#[]", "#[1_0]", "()", "(a)", "(a, b)", "(a, (b, c))", "(a, b,)", "[]", "[a]", "[a, b]", "[a, b,]", "[a, ..]", "[a, b, ..]",
            "[a, ..rest]", "[a, .._]", "[a, .._rest]", "[[a], ..]", "[(a, b), ..t]", "Pair(a, b)", "Pair(_, (a, b))", "Pair(Pair(a, b), c)", "Foo", "Foo()", "Foo {}", "Foo(a)", "Foo(a, b)", "Foo(a, b,)", "Foo(a, ..)", "Foo(..)", "Foo(a, b, ..)", "Foo { a }", "Foo { a, b }",
            "Foo { a: x }", "Foo { a: x, b }", "Foo { a: a }", "Foo { a, .. }", "Foo { .. }", "Foo { a: 1, .. }", "Foo { a, b, }", "Foo { a: Bar(x), b: [y, ..] }", "m.Foo", "m.Foo(a)", "m.Foo { a }", "m.Foo(..)", "m.Foo { .. }", "T.Foo", "T.Foo(a)", "T.Foo { a, .. }", "m.T.Foo", "m.T.Foo(a, ..)",
            "m.T.Foo { a: x }", "Some(x)", "Some(Some(x))", "Some([x, ..])", "Some((a, b))", "Some(Foo { a, .. })", "x as y", "_ as y", "Foo(a) as y", "(a, b) as y", "[a, ..] as y", "Some(x as y)", "Foo { a: x as y }", "[x as y, ..]", "1 as y", "Foo((a, b))", "Foo([a])", "Foo(Bar(a))", "Foo { a: (x, y) }", "Foo { a: [x] }",
            "True", "False", "Void", "None"]


def patterns():
    out = []
    for p in PATTERNS:
        t = p[:20]
        out.append((fn(f"when v is {{\n    {p} -> 1\n    _ -> 2\n  }}"), {f"sys:pat-when:{t}"}))
        out.append((fn(f"let {p} = v\n  1"), {f"sys:pat-let:{t}"}))
        out.append((fn(f"expect {p} = v\n  1"), {f"sys:pat-expect:{t}"}))
        out.append((fn(f"expect {p}: T = v\n  1"), {f"sys:pat-expect-annotated:{t}"}))
        out.append((fn(f"if v is {p}: T {{\n 1\n }} else {{\n 2\n }}"), {f"sys:pat-if-is:{t}"}))
        out.append((fn(f"let {p} <- g(v)\n  1"), {f"sys:pat-backpassing:{t}"}))
        if p[0].isupper() or p[0] in "([":
            out.append((f"fn f({p}: T) {{\n  1\n}}\n", {f"sys:pat-fn-param:{t}"}))
            out.append((fn(f"fn({p}) {{ 1 }}"), {f"sys:pat-lambda-param:{t}"}))
            out.append((f"test t({p} via g()) {{\n  1\n}}\n", {f"sys:pat-via:{t}"}))
    for a, b in [("1", "2"), ("Foo", "Bar"), ("[]", "[_]"), ("Some(x)", "Foo(x)"), ("(1, x)", "(x, 1)"), ("Foo { a, .. }", "Bar { a }")]:
        for sep in ["|", "||", "or", ","]:
            out.append((fn(f"when v is {{\n    {a} {sep} {b} -> 1\n    _ -> 2\n  }}"), {f"sys:pat-alternative:{sep}"}))
        out.append((fn(f"when v is {{\n    {a} | {b} | _ -> 1\n  }}"), {"sys:pat-alternative:three"}))
    return out


BODIES = ["1", "a + b", "f(a)", "{ a }", "{\n let z = 1\n z\n }", "let z = 1", "expect z = a", "expect a == b", "let z <- g(a)", "todo", "fail", 'todo @"m"', 'fail @"m"', "fail a", "todo f(a)", 'fail "bytes"', "when a is { _ -> 1 }", "if a { 1 } else { 2 }", "fn(z) { z }",
          "a |> f", "a\n |> f", "and { a, b }", "or { a, b, }", "and { a }", "and {}", "[a, b]", "(a, b)", "Foo { a: 1 }", "-a", "!a", "a?", '{\n trace @"t"\n a\n }', '{\n trace @"t": a, b\n a\n }', '{\n trace a\n b\n }', '{\n trace @"t"\n }', '{\n trace "bytes"\n a\n }', '{\n trace f(a): b\n c\n }', "(a)", "((a))", "{ { a } }", "{ (a) }", "({ a })",
          "{\n let z = {\n let y = 1\n y\n }\n z\n }", "{\n let z = 1\n\n z\n }", "{\n expect Some(z) = a\n z\n }", "{\n /// doc\n expect a == b\n a\n }", "{\n let z: Int = 1\n z\n }", "{\n let (x, y): (Int, Int) = a\n x\n }", "{\n let x, y <- g(a)\n x\n }", "{\n expect x, y <- g(a)\n x\n }", "{\n let z = a |> f\n z\n }",
          "{\n let z = when a is { _ -> 1 }\n z\n }", "{\n let z = if a { 1 } else { 2 }\n z\n }", "{\n let z = fn(q) { q }\n z\n }", "{\n let z = todo\n }", "{\n let z = fail\n }", "{\n a\n b\n c\n }", "{\n f(a)\n (b)\n }", "{\n a\n -b\n }", "{\n a\n !b\n }", "{\n a\n [b]\n }"]


def positions():
    """every body form in every expression position"""
    ctxs = {
        "fn-body": "fn f() {\n  %s\n}\n",
        "clause": "fn f() {\n  when v is {\n    A -> %s\n    _ -> 0\n  }\n}\n",
        "last-clause": "fn f() {\n  when v is {\n    A -> 0\n    _ -> %s\n  }\n}\n",
        "let-value": "fn f() {\n  let q = %s\n  q\n}\n",
        "expect-value": "fn f() {\n  expect Some(q) = %s\n  q\n}\n",
        "call-arg": "fn f() {\n  g(%s, 1)\n}\n",
        "last-call-arg": "fn f() {\n  g(1, %s)\n}\n",
        "labelled-arg": "fn f() {\n  g(l: %s)\n}\n",
        "list-elem": "fn f() {\n  [%s, 1]\n}\n",
        "tuple-elem": "fn f() {\n  (%s, 1)\n}\n",
        "pair-elem": "fn f() {\n  Pair(1, %s)\n}\n",
        "record-field": "fn f() {\n  Foo { a: %s, b: 1 }\n}\n",
        "if-body": "fn f() {\n  if c {\n    %s\n  } else {\n    0\n  }\n}\n",
        "else-body": "fn f() {\n  if c {\n    0\n  } else {\n    %s\n  }\n}\n",
        "if-cond": "fn f() {\n  if (%s) {\n    0\n  } else {\n    1\n  }\n}\n",
        "when-subject": "fn f() {\n  when (%s) is {\n    _ -> 0\n  }\n}\n",
        "lambda-body": "fn f() {\n  fn(q) { %s }\n}\n",
        "and-elem": "fn f() {\n  and {\n    %s,\n    b,\n  }\n}\n",
        "binop-left": "fn f() {\n  (%s) + 1\n}\n",
        "binop-right": "fn f() {\n  1 + (%s)\n}\n",
        "binop-right-brace": "fn f() {\n  1 == {\n %s \n}\n}\n",
        "pipe-first": "fn f() {\n  (%s) |> g\n}\n",
        "unary": "fn f() {\n  !(%s)\n}\n",
        "const": "const k = %s\n",
        "test-body": "test t() {\n  %s\n}\n",
        "handler-body": "validator v {\n  spend(_d, _r, _o, _c) {\n    %s\n  }\n}\n",
        "else-handler": "validator v {\n  else(_) {\n    %s\n  }\n}\n",
        "trace-then": "fn f() {\n  trace @\"x\"\n  %s\n}\n",
        "seq-first": "fn f() {\n  %s\n  1\n}\n",
        "trace-arg": "fn f() {\n  trace @\"x\": %s\n  1\n}\n",
        "trace-label": "fn f() {\n  trace (%s)\n  1\n}\n",
        "fail-label": "fn f() {\n  fail (%s)\n}\n",
        "question": "fn f() {\n  (%s)?\n}\n",
        "list-tail": "fn f() {\n  [1, ..(%s)]\n}\n",
        "update-base": "fn f() {\n  Foo { ..(%s), a: 1 }\n}\n",
        "update-field": "fn f() {\n  Foo { ..x, a: %s }\n}\n",
        "capture-arg": "fn f() {\n  g(_, %s)\n}\n",
        "backpass-rhs": "fn f() {\n  let q <- g(%s)\n  q\n}\n",
    }
    out = []
    for cn, c in ctxs.items():
        for b in BODIES:
            body = b
            if b.startswith("{\n") and cn in ("fn-body", "if-body", "else-body", "lambda-body", "test-body", "handler-body", "else-handler", "trace-then"):
                # also the un-braced sequence directly as the body
                out.append((c % b[2:-2].strip(), {f"sys:pos:{cn}:seq:{b[2:22].strip()}"}))
            out.append((c % body, {f"sys:pos:{cn}:{b[:20].strip()}"}))
    return out


def literals():
    out = []
    ints = ["0", "1", "42", "007", "1_000", "1_000_000", "1_0", "10_00", "0_0", "000_1", "1_2_3", "999_999", "12345678901234567890123456789", "0x0", "0xff", "0xFF", "0x00ff", "0xdeadBEEF", "0x123456789abcdef0123456789", "1_000_000_000_000_000_000_000"]
    for i in ints:
        for ctx, tpl in [("expr", "fn f() {\n  %s\n}\n"), ("neg", "fn f() {\n  -%s\n}\n"), ("pattern", "fn f() {\n  when v is {\n    %s -> 1\n    _ -> 2\n  }\n}\n"), ("neg-pattern", "fn f() {\n  when v is {\n    -%s -> 1\n    _ -> 2\n  }\n}\n"),
                         ("const", "const k = %s\n"), ("tag", "@tag(%s)\ntype T {\n  A\n}\n"), ("ctor-tag", "type T {\n  @tag(%s)\n  A\n  B\n}\n"), ("byte", "fn f() {\n  #[%s]\n}\n"), ("via", "test t(x via %s) {\n  x\n}\n"), ("neg-via", "test t(x via -%s) {\n  x\n}\n"), ("binop", "fn f() {\n  a - %s * %s\n}\n".replace("%s * %s", "%s"))]:
            out.append((tpl % i, {f"sys:int:{ctx}:{i[:10]}"}))
    strs = ['@""', '@"a"', '@"a b"', '@"\\n"', '@"\\t\\r\\0"', '@"\\""', '@"\\\\"', '@"é日本🙂"', '@"//not a comment"', '@"/// nor"', '@"{ } ( ) [ ]"', '@"a\nb"', '@"tab\there"', '@"\'"', '@"#\\"ff\\""']
    bts = ['""', '"a"', '"a b"', '"\\n"', '"\\""', '"\\\\"', '"é日本"', '"//x"', '"a\nb"', '#""', '#"00"', '#"ff00"', '#"FF00"', '#"aBcD"', "#[]", "#[0]", "#[1, 2, 3]", "#[1, 2, 3,]", "#[255]", "#[0x00]", "#[0x0]", "#[0xff, 0x01]", "#[0xFF]", "#[1_0]", "#[1_0, 2_0]", "#[ 1 , 2 ]",
           "#[1, 2, 3, 4, 5, 6, 7, 8, 9, 10, 11, 12, 13, 14, 15, 16, 17, 18, 19, 20, 21, 22, 23, 24, 25, 26, 27, 28, 29, 30, 31, 32]", '#"' + "ab" * 48 + '"', '"' + "long text " * 12 + '"',
           f'#<Bls12_381, G1>"{G1}"', f'#<Bls12_381, G2>"{G2}"', f'#<Bls12_381, G1>"{G1.upper()}"', "#<Bls12_381, G1>[" + ", ".join(str(int(G1[i:i + 2], 16)) for i in range(0, len(G1), 2)) + "]", "#<Bls12_381, G1>[" + ", ".join("0x" + G1[i:i + 2] for i in range(0, len(G1), 2)) + "]"]
    for s in strs + bts:
        t = s[:14].replace("\n", "\\n")
        for ctx, tpl in [("expr", "fn f() {\n  %s\n}\n"), ("const", "const k = %s\n"), ("arg", "fn f() {\n  g(%s, %s)\n}\n"), ("binop", "fn f() {\n  %s == a\n}\n"), ("trace", "fn f() {\n  trace %s\n  a\n}\n"), ("fail", "fn f() {\n  fail %s\n}\n"), ("todo", "fn f() {\n  todo %s\n}\n"), ("trace-arg", "fn f() {\n  trace @\"l\": %s\n  a\n}\n"), ("via", "test t(x via %s) {\n  x\n}\n"),
                         ("list", "fn f() {\n  [%s, %s, %s]\n}\n")]:
            out.append((tpl.replace("%s", s), {f"sys:lit:{ctx}:{t}"}))
        if s in bts and "Bls" not in s:
            out.append(("fn f() {\n  when v is {\n    %s -> 1\n    _ -> 2\n  }\n}\n" % s, {f"sys:lit:pattern:{t}"}))
    return out


ANNS = ["Int", "a", "_", "_x", "List<Int>", "List<a>", "Option<List<a>>", "Dict<k, v>", "Dict<k, v,>", "m.T", "m.T<a>", "m.T<a, b>", "fn() -> Int", "fn(Int) -> Int", "fn(Int, a) -> fn(a) -> b", "fn(Int,) -> Int", "fn(fn(a) -> b, List<a>) -> List<b>", "(Int, Bool)", "(Int, Bool,)", "(a, (b, c))", "Pair<a, b>",
        "Pair<Pair<a, b>, c>", "List<(Int, Bool)>", "List<Pair<a, b>>", "List<fn(a) -> b>", "Option<fn() -> (a, b)>", "aiken.Pair<a, b>", "Foo<Bar<Baz<Int>>>", "fn(Foo<a>, (a, b), Pair<a, b>, _) -> m.T<a>", "VeryLongTypeName<AnotherVeryLongTypeName<Int>, YetAnotherVeryLongTypeName<ByteArray>, TheLastVeryLongTypeName>"]


def annotations():
    out = []
    for a in ANNS:
        t = a[:24]
        out.append((f"fn f(x: {a}) -> {a} {{\n  x\n}}\n", {f"sys:ann:fn:{t}"}))
        out.append((f"const k: {a} = v\n", {f"sys:ann:const:{t}"}))
        out.append((f"type A = {a}\n", {f"sys:ann:alias:{t}"}))
        out.append((f"pub type A<a, b> = {a}\n", {f"sys:ann:alias-generic:{t}"}))
        out.append((f"type T {{\n  f: {a},\n  g: {a},\n}}\n", {f"sys:ann:field:{t}"}))
        out.append((f"type T {{\n  A({a}, {a})\n  B {{ f: {a} }}\n}}\n", {f"sys:ann:ctor:{t}"}))
        out.append((fn(f"let x: {a} = v\n  x"), {f"sys:ann:let:{t}"}))
        out.append((fn(f"expect x: {a} = v\n  x"), {f"sys:ann:expect:{t}"}))
        out.append((fn(f"fn(x: {a}) -> {a} {{ x }}"), {f"sys:ann:lambda:{t}"}))
        out.append((fn(f"if v is {a} {{\n 1\n }} else {{\n 2\n }}"), {f"sys:ann:if-is:{t}"}))
        out.append((fn(f"if v is x: {a} {{\n 1\n }} else {{\n 2\n }}"), {f"sys:ann:if-is-pattern:{t}"}))
        out.append((f"test t(x: {a} via g()) {{\n  x\n}}\n", {f"sys:ann:via:{t}"}))
        out.append((f"validator v(p: {a}) {{\n  spend(d: {a}, _r, _o, _c) -> {a} {{\n    d\n  }}\n}}\n", {f"sys:ann:validator:{t}"}))
    return out


def definitions():
    out = []
    add = lambda s, t: out.append((s if s.endswith("\n") else s + "\n", {"sys:def:" + t}))  # noqa: E731
    for pub in ["", "pub "]:
        add(pub + "fn f() {\n  1\n}", pub + "fn")
        add(pub + "fn f() {}", pub + "fn-empty")
        add(pub + "fn f() {\n}", pub + "fn-empty-nl")
        add(pub + "fn f(a, b) {\n  a\n}", pub + "fn-args")
        add(pub + "fn f(a, b,) {\n  a\n}", pub + "fn-args-trailing")
        add(pub + "fn f(a: Int, b: List<a>) -> Int {\n  a\n}", pub + "fn-annotated")
        add(pub + "fn f(l a: Int, m _b: Int, _c, _: Int, _d: a) {\n  a\n}", pub + "fn-labels")
        add(pub + "fn f((a, b): (Int, Int), Foo { c, .. }: Foo, [d, ..]: List<Int>, Some(e)) {\n  a\n}", pub + "fn-pattern-args")
        add(pub + "fn f(a: fn(Int) -> Int, b: fn() -> fn() -> a) -> fn(a) -> a {\n  a\n}", pub + "fn-hof")
        add(pub + "const k = 1", pub + "const")
        add(pub + "const k: Int = 1", pub + "const-annotated")
        add(pub + "const k: List<Int> = [1, 2, 3]", pub + "const-list")
        add(pub + "const k = f(1, 2) + g(3)", pub + "const-expr")
        add(pub + "const k = {\n  let x = 1\n  x\n}", pub + "const-block")
        add(pub + "const k =\n  when a is {\n    _ -> 1\n  }", pub + "const-when")
        add(pub + "const k = if a {\n  1\n} else {\n  2\n}", pub + "const-if")
        add(pub + "const k = fn(x) { x }", pub + "const-lambda")
        add(pub + "const k = a |> b |> c", pub + "const-pipe")
        add(pub + "const k = Foo { a: 1, b: 2 }", pub + "const-record")
        add(pub + "const k = Foo { a: _, b: 2 }", pub + "const-record-hole")
        add(pub + "const k = Foo(_, 2)", pub + "const-capture")
        add(pub + "const k = -1", pub + "const-neg")
        add(pub + "const k = and {\n  a,\n  b,\n}", pub + "const-and")
        add(pub + "type T {\n  A\n  B\n}", pub + "type-enum")
        add(pub + "type T {\n  A\n\n  B\n}", pub + "type-enum-blank")
        add(pub + "type T {\n}", pub + "type-empty")
        add(pub + "type T {}", pub + "type-empty-oneline")
        add(pub + "type T {\n  T\n}", pub + "type-single-same-name")
        add(pub + "type T {\n  a: Int,\n  b: Bool,\n}", pub + "type-record")
        add(pub + "type T {\n  a: Int,\n  b: Bool\n}", pub + "type-record-no-trailing")
        add(pub + "type T { a: Int }", pub + "type-record-oneline")
        add(pub + "type T {\n  T { a: Int, b: Bool }\n}", pub + "type-record-explicit")
        add(pub + "type T {\n  T(Int, Bool)\n}", pub + "type-positional")
        add(pub + "type T {\n  A(Int)\n  B { x: Int }\n  C\n}", pub + "type-mixed")
        add(pub + "type T<a> {\n  A(a)\n  B\n}", pub + "type-generic")
        add(pub + "type T<a, b> {\n  a: a,\n  b: b,\n}", pub + "type-generic-record")
        add(pub + "type T<a, b,> {\n  A(a, b,)\n}", pub + "type-generic-trailing")
        add(pub + "opaque type T {\n  A\n}", pub + "opaque")
        add(pub + "opaque type T {\n  a: Int,\n}", pub + "opaque-record")
        add(pub + "type A = Int", pub + "alias")
        add(pub + "type A<a> = List<a>", pub + "alias-generic")
        add(pub + "type A =\n  fn(Int) -> Int", pub + "alias-fn")
        add("@list\n" + pub + "type T {\n  a: Int,\n}", pub + "deco-list")
        add("@tag(1)\n" + pub + "type T {\n  a: Int,\n}", pub + "deco-tag")
        add("@tag(1) " + pub + "type T {\n  a: Int,\n}", pub + "deco-tag-sameline")
        add("@tag(1)\n@list\n" + pub + "type T {\n  a: Int,\n}", pub + "deco-both")
        add(pub + "type T {\n  @tag(2)\n  A\n  @list\n  B(Int)\n  @tag(0x10)\n  @list\n  C { x: Int }\n}", pub + "deco-ctors")
        add(pub + "type T {\n  @tag(2) A\n  B\n}", pub + "deco-ctor-sameline")
    add("use a", "use")
    add("use a/b/c", "use-path")
    add("use a as b", "use-as")
    add("use a/b.{c}", "use-unqualified")
    add("use a/b.{c, D, e as f, G as H}", "use-unqualified-many")
    add("use a/b.{c, D,}", "use-unqualified-trailing")
    add("use a/b.{}", "use-unqualified-empty")
    add("use a/b.{c} as d", "use-unqualified-as")
    add("use b\nuse a", "use-unsorted")
    add("use a.{y}\nuse a.{x}", "use-merge")
    add("use a.{z, y, x}", "use-unsorted-items")
    add("use env\nuse config", "use-env-config")
    add("use aiken/collection/list.{a_very_long_function_name, another_very_long_function_name, yet_another_long_name}", "use-long")
    add("use a\n\nfn f() {\n  1\n}", "use-then-fn")
    add("use a\n\n\n\nuse b\n\nconst k = 1", "use-blank-lines")
    for f in ["", " fail", " fail once"]:
        add(f"test t(){f} {{\n  1\n}}", "test" + f)
        add(f"test t(){f} {{}}", "test-empty" + f)
        add(f"test t(x via g()){f} {{\n  x\n}}", "test-via" + f)
        add(f"test t(x: Int via g()){f} {{\n  x\n}}", "test-via-annotated" + f)
        add(f"test t(x via g(), y via h(1)){f} {{\n  x\n}}", "test-via-two" + f)
        add(f"test t((a, b) via both(g(), h())){f} {{\n  a\n}}", "test-via-pattern" + f)
        add(f"test t(_x via m.g()){f} {{\n  1\n}}", "test-via-discard" + f)
    for v in ["g", "g()", "m.g", "m.g()", "g(1)", "g(-1)", 'g(@"s")', 'g("b", #"00", #[1])', "g(h(1), k)", "(g, h)", "(g(), h())", "[g, h]", "[g(), ..h]", "Pair(g, h)", "g().1st", "g.f", "g(a: 1)", "g(_)", "1", "-1", '@"s"', '#"00"', "0xff", "1_000", "g([1, 2])", "g((1, 2))", "g(Pair(1, 2))", "m.T.g", "G", "G(1)"]:
        add(f"test t(x via {v}) {{\n  x\n}}", "via:" + v[:16])
        add(f"bench b(x via {v}) {{\n  x\n}}", "bench-via:" + v[:16])
    add("bench b() {\n  1\n}", "bench")
    add("bench b(x: Int via g()) {\n  x\n}", "bench-annotated")
    hs = ["spend", "mint", "withdraw", "publish", "vote", "propose"]
    add("validator v {\n  spend(d, r, o, c) {\n    True\n  }\n}", "validator")
    add("validator v() {\n  spend(d, r, o, c) {\n    True\n  }\n}", "validator-empty-params")
    add("validator v(a: Int, b) {\n  mint(r, p, c) {\n    True\n  }\n}", "validator-params")
    add("validator v {\n  spend(d: Option<D>, r: R, o: OutputReference, c: Transaction) -> Bool {\n    True\n  }\n}", "validator-annotated")
    add("validator v {\n  spend(d, r, o, c) -> Void {\n    Void\n  }\n}", "validator-non-bool-return")
    add("validator v {\n  else(_) {\n    fail\n  }\n}", "validator-else-only")
    add("validator v {\n  else(_ctx: ScriptContext) {\n    fail @\"x\"\n  }\n}", "validator-else-annotated")
    add("validator v {\n  spend(d, r, o, c) {\n    True\n  }\n\n  else(_) {\n    fail\n  }\n}", "validator-else")
    add("validator v {\n}", "validator-empty")
    add("validator v {}", "validator-empty-oneline")
    add("validator v {\n" + "\n\n".join(f"  {h}(a, b, c) {{\n    True\n  }}" for h in hs) + "\n}", "validator-all")
    add("validator v {\n" + "\n\n".join(f"  {h}(a, b, c) {{\n    True\n  }}" for h in hs) + "\n\n  else(_) {\n    fail\n  }\n}", "validator-all-else")
    add("validator v {\n" + "\n\n".join(f"  {h}(a, b, c) {{\n    True\n  }}" for h in hs) + "\n\n  else(_) {\n    False\n  }\n}", "validator-all-else-custom")
    add("validator v {\n" + "\n\n".join(f"  {h}(a, b, c) {{\n    True\n  }}" for h in hs[:5]) + "\n}", "validator-five")
    add("validator v {\n  spend(d, r, o, c) {}\n}", "validator-empty-handler")
    add("validator v {\n  foo(a) {\n    True\n  }\n}", "validator-unknown-handler")
    add("validator v {\n  spend(l d: D, m _r: R, _o, _) {\n    True\n  }\n}", "validator-labels")
    add("validator v(Foo { a, .. }: Foo) {\n  spend((d, e): (D, E), r, o, c) {\n    True\n  }\n}", "validator-pattern-params")
    return out


def misc():
    out = []
    add = lambda s, t: out.append((fn(s), {"sys:misc:" + t}))  # noqa: E731
    for kw in ["and", "or"]:
        for k2 in ["and", "or"]:
            add(f"{kw} {{\n a,\n {k2} {{\n b,\n c,\n }},\n }}", f"{kw}-in-{k2}")
            add(f"{kw} {{ a, b }} && {k2} {{ c, d }}", f"{kw}-binop-{k2}")
            add(f"x || {kw} {{ a, b }}", f"or-op-{kw}")
            add(f"!{kw} {{ a, b }}", f"not-{kw}")
            add(f"{kw} {{ a && b, c || d, !e, f == g, h |> i }}", f"{kw}-mixed")
        add(f"{kw} {{ a }}", f"{kw}-single")
        add(f"{kw} {{}}", f"{kw}-empty")
        add(f"{kw} {{\n let z = 1\n z,\n b,\n }}", f"{kw}-with-let")
        add(f"{kw} {{ a, b }}?", f"{kw}-question")
        add(f"{kw} {{ a?, b? }}", f"{kw}-question-inside")
        add(f"{kw} {{ todo, fail }}", f"{kw}-todo")
    ifs = ["if a {\n 1\n } else {\n 2\n }", "if a {\n 1\n } else if b {\n 2\n } else {\n 3\n }", "if a {\n 1\n } else if b {\n 2\n } else if c {\n 3\n } else {\n 4\n }", "if a is Int {\n 1\n } else {\n 2\n }", "if a is x: Int {\n 1\n } else {\n 2\n }", "if a is Some(x): Option<Int> {\n x\n } else {\n 2\n }",
           "if f(a) is Some(x): Option<Int> {\n x\n } else {\n 2\n }", "if a is Foo { b, .. }: Foo {\n b\n } else if c is Bar {\n c\n } else {\n 2\n }", "if a is a: Int {\n 1\n } else {\n 2\n }", "if a is _: Int {\n 1\n } else {\n 2\n }", "if a is _x: Int {\n 1\n } else {\n 2\n }", "if f(a) is Int {\n 1\n } else {\n 2\n }", "if a == Foo {\n b\n } else {\n c\n }",
           "if a {\n b\n } else {\n c\n }", "if a { b } else { c }", "if a == b && c {\n 1\n } else {\n 2\n }", "if (a) {\n 1\n } else {\n 2\n }", "if { a } {\n 1\n } else {\n 2\n }", "if !a {\n 1\n } else {\n 2\n }", "if a |> f {\n 1\n } else {\n 2\n }", "if when a is { _ -> True } {\n 1\n } else {\n 2\n }",
           "if if a { b } else { c } {\n 1\n } else {\n 2\n }", "if a {\n let z = 1\n z\n } else {\n let z = 2\n z\n }", "if a {\n todo\n } else {\n fail\n }", "if a {\n if b {\n 1\n } else {\n 2\n }\n } else {\n 3\n }", "if a {\n 1\n } else {\n if b {\n 2\n } else {\n 3\n }\n }", "if Foo(a) == b {\n 1\n } else {\n 2\n }", "if a == Foo(b) {\n 1\n } else {\n 2\n }", "if a == Foo { b: 1 } {\n 1\n } else {\n 2\n }"]
    for i, s in enumerate(ifs):
        add(s, f"if:{i}")
        add(f"let z = {s}\n z", f"if-let:{i}")
        add(f"({s}) + 1", f"if-binop:{i}")
        add(f"g({s})", f"if-arg:{i}")
    whens = ["when a is {\n _ -> 1\n }", "when a is {\n }", "when a is {}", "when a is {\n A -> 1\n B -> 2\n }", "when a is {\n A -> 1\n\n B -> 2\n }", "when (a, b) is {\n (A, B) -> 1\n _ -> 2\n }", "when a is {\n A -> {\n 1\n }\n _ -> 2\n }", "when a is {\n A -> {\n let z = 1\n z\n }\n _ -> 2\n }",
             "when a is {\n A -> when b is {\n B -> 1\n _ -> 2\n }\n _ -> 3\n }", "when a is {\n A -> fn(z) { z }\n _ -> g\n }", "when a is {\n A -> todo\n B -> fail\n C -> todo @\"c\"\n D -> fail @\"d\"\n _ -> 0\n }", "when a is {\n A -> fail b\n _ -> 0\n }", "when a is {\n A -> todo\n }", "when a |> f is {\n _ -> 1\n }", "when a + b is {\n _ -> 1\n }",
             "when f(a) is {\n _ -> 1\n }", "when a.b is {\n _ -> 1\n }", "when { a } is {\n _ -> 1\n }", "when when a is { _ -> b } is {\n _ -> 1\n }", "when if a { b } else { c } is {\n _ -> 1\n }", "when a is {\n A -> if b {\n 1\n } else {\n 2\n }\n _ -> 3\n }", "when a is {\n A -> b |> f |> g\n _ -> 3\n }", "when a is {\n A -> b\n |> f\n _ -> 3\n }",
             "when a is {\n A -> and {\n b,\n c,\n }\n _ -> False\n }", "when a is {\n A -> [1, 2, 3]\n _ -> []\n }", "when a is {\n A -> (1, 2)\n _ -> (3, 4)\n }", "when a is {\n A -> Foo { x: 1 }\n _ -> Foo { x: 2 }\n }", "when a is {\n A -> -1\n _ -> !b\n }", "when a is {\n A -> a?\n _ -> b\n }", "when Foo(a) is {\n _ -> 1\n }", "when a is {\n A -> let z = 1\n _ -> 2\n }",
             "when a is {\n A -> expect z = 1\n _ -> 2\n }", "when a is {\n A -> expect b\n _ -> 2\n }", "when a is {\n A -> {\n trace @\"x\"\n 1\n }\n _ -> 2\n }", "when a is {\n A ->\n 1\n _ ->\n 2\n }"]
    for i, s in enumerate(whens):
        add(s, f"when:{i}")
        add(f"let z = {s}\n z", f"when-let:{i}")
        add(f"({s}) == 1", f"when-binop:{i}")
        add(f"g({s}, 1)", f"when-arg:{i}")
    lambdas = ["fn() { 1 }", "fn(x) { x }", "fn(x, y) { x + y }", "fn(x,) { x }", "fn(x: Int) -> Int { x }", "fn(_) { 1 }", "fn(_x, _y: Int) { 1 }", "fn(x) {\n let y = x\n y\n }", "fn(x) { fn(y) { x + y } }", "fn((a, b)) { a }", "fn(Foo { a, .. }: Foo) { a }", "fn([a, ..]) { a }", "fn(Some(x)) -> Int { x }",
               "fn(x) { when x is { _ -> 1 } }", "fn(x) { if x { 1 } else { 2 } }", "fn(x) { todo }", "fn(x) { fail @\"m\" }", "fn(x) {\n trace @\"t\"\n x\n }", "fn(x) { and { x, y } }", "fn(x) -> fn(Int) -> Int { fn(y) { x + y } }", "fn(a_long_argument_name, another_long_argument_name, yet_another_long_argument_name) { a_long_argument_name }", "fn(x) {}", "fn() {}"]
    for i, s in enumerate(lambdas):
        add(s, f"lambda:{i}")
        add(f"g({s})", f"lambda-arg:{i}")
        add(f"g(1, {s})", f"lambda-last-arg:{i}")
        add(f"g({s}, 1)", f"lambda-first-arg:{i}")
        add(f"x |> {s}", f"lambda-pipe:{i}")
        add(f"({s})(1)", f"lambda-called:{i}")
        add(f"let h = {s}\n h", f"lambda-let:{i}")
    seqs = ["let a = 1\n a", "let a = 1\n\n a", "let a = 1\n let b = 2\n a + b", "let a =\n 1\n a", "let a: Int = 1\n a", "let (a, b) = c\n a", "let a, b <- f\n a", "let a <- f(x)\n let b <- g(a)\n b", "expect a = b\n a", "expect Some(a): Option<Int> = b\n a", "expect a\n b", "expect a == b\n c", "expect a?\n b",
            "expect True = a\n b", "expect False = a\n b", "expect True: Bool = a\n b", "expect m.True = a\n b", "expect (a |> f)\n b", "expect a <- f\n a", "/// why\n expect a = b\n a", "/// why\n expect a\n b", "/// line one\n /// line two\n expect a\n b", "let a = {\n 1\n }\n a", "let a = {\n let b = 1\n b\n }\n a", "let a = (1)\n a",
            "let a = fail\n a", "let a = todo @\"x\"\n a", "let _ = f()\n 1", "let _x = f()\n 1", "let a = b |> c\n a", "let a =\n b\n |> c\n |> d\n a", "let a = b == c && d\n a", "let a = -b\n a", "a\n b", "f(a)\n g(b)", "f(a)\n\n\n\n g(b)", "trace @\"a\"\n b", "trace @\"a\": b\n c", "trace @\"a\": b, c, d\n e", "trace a\n b", "trace f(a)\n b", "trace @\"a\"",
            "trace \"bytes\"\n b", "trace @\"a\": @\"b\"\n c", "trace @\"a\": \"b\"\n c", "trace (a |> f)\n b", "trace a + b\n c", "trace @\"a\"\n trace @\"b\"\n c", "trace @\"a\"\n\n b", "let a = 1\n trace @\"x\": a\n a", "trace @\"a\": f(b), c.d, e.1st\n g", "trace if a { @\"x\" } else { @\"y\" }\n b", "fail", "todo", "fail @\"m\"", "todo @\"m\"",
            "fail \"bytes\"", "todo a", "fail f(a)", "fail a |> f", "fail a + b", "todo when a is { _ -> @\"x\" }", "fail @\"a\" |> f", "let a = 1\n fail", "let a = 1\n todo @\"later\"", "a?", "f(a)?", "(a == b)?", "(a |> f)?", "a.b?", "a? && b?", "!a?", "-a?", "(!a)?", "(-a)?", "(a?)?", "f(a?)", "[a?]", "a == b?", "{ a }?", "(todo)?", "(fail @\"x\")?", "if a { b } else { c }?", "when a is { _ -> b }?"]
    for i, s in enumerate(seqs):
        add(s, f"seq:{i}:{s[:12]}")
    colls = ["[]", "[1]", "[1, 2, 3]", "[1, 2, 3,]", "[a, ..b]", "[a, b, ..c]", "[a, ..f(b)]", "[a, ..[b]]", "[a, ..b |> f]", "[a, ..b,]" if False else "[a, .. b]", "[[1, 2], [3]]", "[(1, 2), (3, 4)]", "[f(a), g(b)]", "[fn(x) { x }]", "[when a is { _ -> 1 }]", "[a + b, c * d]", "[a |> f]", "[-1, !a]", "[Foo { a: 1 }, Foo { a: 2 }]",
             "[" + ", ".join(str(i) for i in range(40)) + "]", "[" + ", ".join(f"f({i})" for i in range(20)) + "]", "[" + ", ".join(f'"{i}"' for i in range(30)) + "]", "(1, 2)", "(1, 2, 3)", "(1, 2,)", "((1, 2), 3)", "(a + b, c)", "(f(a), [b])", "(fn(x) { x }, 1)", "(a |> f, b)", "(-1, !a)", "Pair(1, 2)", "Pair(1, 2,)", "Pair(Pair(1, 2), 3)", "Pair(a + b, c |> d)", "aiken.Pair(1, 2)", "Pair((1, 2), [3])",
             "Pair(fn(x) { x }, when a is { _ -> 1 })", "(\n 1, 2)", "f(\n a,\n b,\n )", "f((a, b))", "f([a, b])", "f(a)(b)(c)", "a.b.c.d", "a.1st.2nd", "a.b(c).d", "m.f(a)", "m.Foo(a)", "m.T.Foo(a)", "T.Foo", "m.f", "f(a: 1, b: 2)", "f(a: 1, 2)", "f(1, b: 2)", "f(a, b,)", "f()", "f(a_very_long_argument_name_number_one, a_very_long_argument_name_number_two, a_very_long_argument_name_number_three)",
             "a_very_long_function_name_for_testing(another_quite_long_function_name(yet_another_long_function_name(x, y), z), w)", "f(+)", "f(a, -, b)", "f(==, a)", "f(a, <=)", "f(&&, ||)", "f(a, %, b)", "f(|>)" if False else "f(*, /)", "reduce(xs, +, 0)", "compare(a, <, b)", "x |> f(+)", "f(-, a)"]
    for i, s in enumerate(colls):
        add(s, f"coll:{i}:{s[:12]}")
        add(f"let z = {s}\n z", f"coll-let:{i}")
    return out


def systematic():
    parts = [binop_pairs(), unary_forms(), chains(), pipes(), captures(), records(), patterns(), positions(), literals(), annotations(), definitions(), misc()]
    seen = set()
    out = []
    for p in parts:
        for src, tags in p:
            if src not in seen:
                seen.add(src)
                out.append((src, tags))
    return out


if __name__ == "__main__":
    xs = systematic()
    print(len(xs), "systematic modules")
