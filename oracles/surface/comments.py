"""Comment insertion: take a parseable module and insert uniquely numbered `// c<n>`,
`/// doc<n>` and `//// m<n>` comments at token boundaries.  The original layout is kept
(text is spliced at token offsets).  Numbers increase in source order, so loss, duplication
and reordering are all visible in the driver's ordered comment list.  Only variants the real
parser accepts count (the caller checks parse1).

Positions:
  eol        after the last token of a line                     `x = 1 // c1`
  own        on a line of its own after any line
  boundary   after ANY token (the rest of the line moves down): inside argument lists,
             patterns, between an operator and its operand, before `{`, after `->` ...
  doc        `///` before a definition, a record field, a constructor, a validator handler
  module     `////` on its own line (top of the file or after any line)
"""
from . import lex

DEF_KW = {"fn", "pub", "const", "type", "opaque", "test", "bench", "validator"}


def _doc_positions(sp):
    """indices i such that a doc comment may be put on its own line before token i"""
    pos = []
    depth = 0
    stack = []  # kind of the enclosing top-level definition per open bracket
    cur_def = None
    for i, (k, t, nl, a, b) in enumerate(sp):
        if k in ("c2", "c3", "c4"):
            continue
        first_on_line = nl > 0 or i == 0
        if depth == 0:
            if (k == "kw" and t in DEF_KW) or k == "at":
                if first_on_line:
                    pos.append(i)
                if k == "kw" and t in ("type", "validator", "fn", "const", "test", "bench"):
                    cur_def = t
        elif depth == 1 and first_on_line and stack and stack[0] in ("type", "validator"):
            if stack[0] == "type" and (k in ("up", "at") or (k == "name" and i + 1 < len(sp) and sp[i + 1][1] == ":")):
                pos.append(i)
            elif stack[0] == "validator" and (k == "name" or (k == "kw" and t == "else")) and i + 1 < len(sp) and sp[i + 1][1] == "(":
                pos.append(i)
        elif depth == 2 and first_on_line and stack and stack[0] == "type" and k == "name" and i + 1 < len(sp) and sp[i + 1][1] == ":":
            pos.append(i)
        if k == "open":
            stack.append(cur_def if depth == 0 else stack[-1] if stack else None)
            depth += 1
        elif k == "close":
            depth = max(depth - 1, 0)
            if stack:
                stack.pop()
    return pos


def _line_indent(src, off):
    ls = src.rfind("\n", 0, off) + 1
    j = ls
    while j < len(src) and src[j] in " \t":
        j += 1
    return src[ls:j]


def variant(src, rng, density=None, kinds=("eol", "own", "boundary", "doc", "module")):
    """-> (text, {position kind: count}) or None when the source has no tokens"""
    sp = lex.spans(src)
    if not sp:
        return None
    n = len(sp)
    line_ends = [i for i in range(n) if i + 1 == n or sp[i + 1][2] > 0]
    docs = _doc_positions(sp) if "doc" in kinds else []
    k = density if density is not None else rng.range(1, 6)
    if density == "dense":
        k = 10 ** 9
    ins = []  # (offset, order, kind, payload builder)
    choices = []
    for kd in kinds:
        if kd == "eol":
            choices += [("eol", i) for i in line_ends]
        elif kd == "own":
            choices += [("own", i) for i in line_ends]
        elif kd == "boundary":
            choices += [("boundary", i) for i in range(n - 1) if sp[i][0] not in ("c2", "c3", "c4")]
        elif kd == "doc":
            choices += [("doc", i) for i in docs] * 3
        elif kd == "module":
            choices += [("module", -1)] + [("module", i) for i in line_ends[: max(1, len(line_ends) // 8)]]
    if not choices:
        return None
    if k >= len(choices):
        picked = choices
    else:
        picked = [rng.pick(choices) for _ in range(k)]
    seen = set()
    for kd, i in picked:
        if (kd, i) in seen:
            continue
        seen.add((kd, i))
        if kd == "module" and i == -1:
            ins.append((0, 0, kd, i))
        elif kd == "doc":
            ins.append((sp[i][3], 1, kd, i))
        else:
            # a comment token swallows the rest of its line: never splice after a comment
            if sp[i][0] in ("c2", "c3", "c4"):
                if kd == "boundary":
                    continue
            ins.append((sp[i][4], 2 if kd == "eol" else 3, kd, i))
    if not ins:
        return None
    ins.sort(key=lambda x: (x[0], x[1]))
    out = []
    last = 0
    counts = {}
    num = 0
    for off, _, kd, i in ins:
        out.append(src[last:off])
        last = off
        num += 1
        counts[kd] = counts.get(kd, 0) + 1
        if kd == "module" and i == -1:
            out.append(f"//// m{num}\n")
        elif kd == "module":
            out.append(f"\n//// m{num}")
        elif kd == "doc":
            ind = _line_indent(src, off)
            out.append(f"/// doc{num}\n{ind}")
        elif kd == "eol":
            out.append(f" // c{num}")
        elif kd == "own":
            ind = _line_indent(src, off)
            out.append(f"\n{ind}// c{num}")
        else:  # boundary
            ind = _line_indent(src, off)
            nxt_on_same_line = i + 1 < n and sp[i + 1][2] == 0
            out.append(f" // c{num}" + (f"\n{ind}  " if nxt_on_same_line else ""))
    out.append(src[last:])
    text = "".join(out)
    # an eol/own/boundary comment spliced right after an existing comment on the same line would
    # be swallowed by it; detect by re-lexing: all numbered comments must be tokens
    got = sum(1 for t in lex.tokens(text) if t[0] in ("c2", "c3", "c4") and t[1].lstrip("/").strip()[:1] in ("c", "d", "m") and t[1].lstrip("/").strip()[1:].lstrip("oc").isdigit())
    if got < num:
        return None
    return text, counts


def dense_variants(src):
    """deterministic saturating variants: a comment at EVERY position of one kind"""
    out = []

    class _NoRng:
        def pick(self, xs):
            return xs[0]

        def range(self, a, b):
            return b

    for kd in ("eol", "own", "boundary", "doc"):
        v = variant(src, _NoRng(), density="dense", kinds=(kd,))
        if v:
            out.append((v[0], {"dense-" + kd: 1}))
    return out
