"""Verdict for one accepted input (parse1 == ok) from the driver's `fmt` result: a list of
failures [(kind, signature, detail)].  kind is one of

    output-does-not-parse | ast-changed | comments-lost-or-reordered | not-idempotent | crash

`signature` is the coarse, input-independent part of the observation that has to persist
while the input is minimised (so that minimisation cannot slide into a different defect);
`detail` is for the witness.  Accepted normalisations (NOTES.md) are applied here and
counted in `normalised` instead of being reported.
"""
import re

from . import astnorm, lex

KINDS = ("output-does-not-parse", "ast-changed", "comments-lost-or-reordered", "not-idempotent", "crash")


def _abstract(s):
    """head of a diff side with literals abstracted: stable under renaming"""
    s = s.split(" {")[0] if s.endswith("…") or " {" in s or "(" in s[-2:] else s
    s = re.sub(r'"(?:[^"\\]|\\.)*"', "S", s)
    s = re.sub(r"\b\d+\b", "N", s)
    return s[:80]


def diff_signature(d):
    """(before, after) heads of one differing sub-tree: node type names without the field
    they sit in (so that the signature survives when the context is minimised away), leaf
    fields with their literals abstracted"""
    _, a, b = d
    return (_abstract(_head(a)), _abstract(_head(b)))


def _head(s):
    """'then: Sequence { location..' -> 'Sequence'; 'name: "x"' -> 'name: "x"';
    '3 items: elems: [ ..' -> 'len elems'"""
    m = re.match(r"(\d+) items: (.*)", s)
    if m:
        return "len " + m.group(2).split(" ")[0].rstrip(":[({")
    m = re.match(r"(?:[a-z_]+: )?([A-Z][A-Za-z0-9_]*)\s*[{(\[]", s)
    if m:
        return m.group(1)
    return s


def comment_failures(r, src):
    before, after = r.get("comments_diff", [[], []])
    out = []
    norm = {}

    def kind(c):
        return "c4" if c.startswith("////") else "c3" if c.startswith("///") else "c2"

    from collections import Counter

    cb, ca = Counter(before), Counter(after)
    lost = list((cb - ca).elements())
    extra = list((ca - cb).elements())
    if lost:
        out.append(("comments-lost-or-reordered", ("lost", tuple(sorted({kind(c) for c in lost}))), {"lost": lost[:5], "before": before[:30], "after": after[:30]}))
    if extra:
        out.append(("comments-lost-or-reordered", ("duplicated", tuple(sorted({kind(c) for c in extra}))), {"extra": extra[:5], "before": before[:30], "after": after[:30]}))
    if lost or extra:
        return out, norm
    for k in ("c2", "c3", "c4"):
        if [c for c in before if kind(c) == k] != [c for c in after if kind(c) == k]:
            out.append(("comments-lost-or-reordered", ("reordered-same-kind", k), {"before": before[:30], "after": after[:30]}))
    if out:
        # comments above an import travel with it when the imports are sorted (accepted: the
        # driver already treats import order as normalised): every comment whose order changed
        # must still sit above the same `use <module>` line
        fmt = r.get("fmt")
        if fmt is not None:
            a1, a2 = _import_anchors(src), _import_anchors(fmt)
            moved = []
            for k in ("c2", "c3"):
                moved += _moved([c for c in before if kind(c) == k], [c for c in after if kind(c) == k])
            c4_same = [c for c in before if kind(c) == "c4"] == [c for c in after if kind(c) == "c4"]
            if moved and c4_same and all(c in a1 and a1.get(c) == a2.get(c) for c in moved):
                return [], {"comments-travel-with-sorted-imports": 1}
        return out, norm
    # only the interleaving of different kinds changed
    b23 = [c for c in before if kind(c) != "c4"]
    a23 = [c for c in after if kind(c) != "c4"]
    if b23 == a23:
        norm["module-comments-hoisted"] = 1
        return out, norm
    # accepted when the comments of every gap between two code tokens stay together
    # (`//` lines are printed above the `///` block of the same definition)
    # accepted when every `//` / `///` pair whose order flipped stood in the same gap between two
    # code tokens (`//` lines are printed above the `///` block of the same definition)
    def uniq(xs):
        seen = {}
        out = []
        for x in xs:
            seen[x] = seen.get(x, 0) + 1
            out.append((x, seen[x]))
        return out

    run_of = _run_ids(src)
    ub, ua = uniq(b23), uniq(a23)
    pos_b = {c: i for i, c in enumerate(ub)}
    pos_a = {c: i for i, c in enumerate(ua)}
    ok = set(pos_b) == set(pos_a)
    if ok:
        docs = [c for c in ub if kind(c[0]) == "c3"]
        lines = [c for c in ub if kind(c[0]) == "c2"]
        for d in docs:
            for c in lines:
                if (pos_b[d] < pos_b[c]) != (pos_a[d] < pos_a[c]) and run_of.get(d) != run_of.get(c):
                    ok = False
                    break
            if not ok:
                break
    if ok:
        norm["comment-kinds-regrouped-within-gap"] = 1
        return out, norm
    out.append(("comments-lost-or-reordered", ("reordered-across-kinds",), {"before": before[:30], "after": after[:30]}))
    return out, norm


def _moved(before, after):
    """comments that are not part of the longest common subsequence"""
    import difflib

    sm = difflib.SequenceMatcher(a=before, b=after, autojunk=False)
    keep = set()
    for blk in sm.get_matching_blocks():
        keep.update(before[blk.a: blk.a + blk.size])
    return [c for c in before if c not in keep]


def _import_anchors(text):
    """{comment text: module path of the `use` line it sits above}"""
    toks = lex.tokens(text)
    out = {}
    pending = []
    i = 0
    while i < len(toks):
        k, t, nl = toks[i]
        if k == "c4":
            pass  # module comments are hoisted, they never belong to an import
        elif k in ("c2", "c3"):
            pending.append(t.rstrip())
        else:
            if k == "kw" and t == "use":
                j = i + 1
                path = []
                while j < len(toks) and (toks[j][0] == "name" or toks[j][1] == "/") and toks[j][2] == 0:
                    path.append(toks[j][1])
                    j += 1
                for c in pending:
                    out[c] = "".join(path)
            pending = []
        i += 1
    return out


def doc_anchor_failures(src, fmt):
    """every `///` comment must stay in front of the same code token (a doc comment that
    ends up in front of something else documents something else)"""
    def anchors(text):
        toks = lex.tokens(text)
        res = []
        for i, (k, t, nl) in enumerate(toks):
            if k == "c3":
                j = i + 1
                while j < len(toks) and toks[j][0] in ("c2", "c3", "c4"):
                    j += 1
                res.append((t.rstrip(), toks[j][1] if j < len(toks) else "<end of module>"))
        return res

    a, b = anchors(src), anchors(fmt)
    if sorted(a) == sorted(b):
        return []
    bd = {}
    for c, x in b:
        bd.setdefault(c, []).append(x)
    moved = [(c, x, bd.get(c, ["<lost>"])[0]) for c, x in a if x not in bd.get(c, [])]
    if not moved:
        return []
    to_end = all(y == "<end of module>" for _, _, y in moved)
    return [("comments-lost-or-reordered", ("doc-comment-moved", "to-end" if to_end else "to-other-item"), {"moved": [{"doc": c, "was before": x, "now before": y} for c, x, y in moved[:6]], "fmt": fmt})]


def _run_ids(text):
    """{(comment text, k-th occurrence): index of the gap (between two code tokens) it stands in}"""
    out = {}
    seen = {}
    gap = 0
    for t in lex.tokens(text):
        if t[0] in ("c2", "c3"):
            x = t[1].rstrip()
            seen[x] = seen.get(x, 0) + 1
            out[(x, seen[x])] = gap
        elif t[0] != "c4":
            gap += 1
    return out


def _runs(text):
    """the multiset of comment groups (comments with no code token in between), module
    comments left out"""
    runs = []
    cur = []
    for t in lex.tokens(text):
        if t[0] in ("c2", "c3"):
            cur.append(t[1].rstrip())
        elif t[0] == "c4":
            continue
        else:
            if cur:
                runs.append(tuple(sorted(cur)))
                cur = []
    if cur:
        runs.append(tuple(sorted(cur)))
    return sorted(runs)


def judge(r, src):
    """-> (failures, normalised{name:n});  r must be a result with parse1 == ok (or a crash)"""
    fails = []
    norm = {}
    if "panic" in r:
        msg = re.sub(r":\d+(:\d+)?", "", r["panic"])
        return [("crash", ("panic", msg[:120]), {"panic": r["panic"]})], norm
    if "died" in r:
        return [("crash", ("died", str(r["died"])), {"died": r["died"]})], norm
    if r.get("timeout"):
        return [("crash", ("timeout",), {})], norm
    if r.get("parse1") != "ok":
        return [], norm
    if r.get("parse2") != "ok":
        m = re.search(r"kind: ([A-Za-z]+(?:\([^)]*\))?)", r.get("parse2_detail", ""))
        sig = m.group(1) if m else "?"
        sig = re.sub(r'"[^"]*"', "S", sig)
        return [("output-does-not-parse", (sig,), {"parse2_detail": r.get("parse2_detail"), "fmt": r.get("fmt")})], norm
    if not r.get("ast_eq", True):
        if "tree1" in r and "tree2" in r:
            eq, used, ds = astnorm.compare(r["tree1"], r["tree2"])
            for k, v in used.items():
                norm[k] = norm.get(k, 0) + v
            seen = set()
            for d in ds:
                sig = diff_signature(d)
                if sig in seen:
                    continue
                seen.add(sig)
                fails.append(("ast-changed", sig, {"path": d[0], "before": d[1], "after": d[2], "fmt": r.get("fmt")}))
        else:
            d = r.get("ast_diff", {})
            at = d.get("at", 0)
            b = d.get("before", [])
            a = d.get("after", [])
            i = min(3, at)
            sig = (_abstract((b[i] if i < len(b) else "<end>").strip()), _abstract((a[i] if i < len(a) else "<end>").strip()))
            fails.append(("ast-changed", ("first-diff",) + sig, {"ast_diff": d, "fmt": r.get("fmt")}))
    if not r.get("imports_eq", True):
        fails.append(("ast-changed", ("imports",), {"imports": r.get("imports")}))
    if not r.get("comments_eq", True):
        f, n = comment_failures(r, src)
        fails += f
        for k, v in n.items():
            norm[k] = norm.get(k, 0) + v
    if "///" in src and r.get("fmt") is not None and not any(k == "comments-lost-or-reordered" and s[0] in ("lost", "duplicated") for k, s, _ in fails):
        fails += doc_anchor_failures(src, r["fmt"])
    if not r.get("idempotent", True):
        fails.append(("not-idempotent", (), {"fmt": r.get("fmt"), "fmt2": r.get("fmt2")}))
    return fails, norm


def needs_trees(r):
    if hasattr(r, "has"):
        return r.has(b'"parse1":"ok"') and r.has(b'"parse2":"ok"') and r.has(b'"ast_eq":false') and not r.has(b'"tree1":[')
    return r.get("parse1") == "ok" and r.get("parse2") == "ok" and not r.get("ast_eq", True) and "tree1" not in r
