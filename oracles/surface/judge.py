"""Verdict for one accepted input (parse1 == ok) from the driver's `fmt` result: a list of
failures [(kind, signature, detail)].  kind is one of

    output-does-not-parse | ast-changed | comments-lost-or-reordered | not-idempotent | crash

`signature` is the coarse, input-independent part of the observation that has to persist
while the input is minimised (so that minimisation cannot slide into a different defect);
`detail` is for the witness.  Accepted normalisations (NOTES.md) are applied here and
counted in `normalised` instead of being reported.
"""
import re

from . import astnorm, lex

KINDS = ("output-does-not-parse", "ast-changed", "comments-lost-or-reordered", "not-idempotent", "crash")


def _abstract(s):
    """head of a diff side with literals abstracted: stable under renaming"""
    s = s.split(" {")[0] if s.endswith("…") or " {" in s or "(" in s[-2:] else s
    s = re.sub(r'"(?:[^"\\]|\\.)*"', "S", s)
    s = re.sub(r"\b\d+\b", "N", s)
    return s[:80]


def diff_signature(d):
    """(before, after) heads of one differing sub-tree: node type names without the field
    they sit in (so that the signature survives when the context is minimised away), leaf
    fields with their literals abstracted"""
    _, a, b = d
    return (_abstract(_head(a)), _abstract(_head(b)))


def _head(s):
    """'then: Sequence { location..' -> 'Sequence'; 'name: "x"' -> 'name: "x"';
    '3 items: elems: [ ..' -> 'len elems'"""
    m = re.match(r"(\d+) items: (.*)", s)
    if m:
        return "len " + m.group(2).split(" ")[0].rstrip(":[({")
    m = re.match(r"(?:[a-z_]+: )?([A-Z][A-Za-z0-9_]*)\s*[{(\[]", s)
    if m:
        return m.group(1)
    return s


def comment_failures(r, src):
    before, after = r.get("comments_diff", [[], []])
    out = []
    norm = {}

    def kind(c):
        return "c4" if c.startswith("////") else "c3" if c.startswith("///") else "c2"

    from collections import Counter

    cb, ca = Counter(before), Counter(after)
    lost = list((cb - ca).elements())
    extra = list((ca - cb).elements())
    if lost:
        out.append(("comments-lost-or-reordered", ("lost", tuple(sorted({kind(c) for c in lost}))), {"lost": lost[:5], "before": before[:30], "after": after[:30]}))
    if extra:
        out.append(("comments-lost-or-reordered", ("duplicated", tuple(sorted({kind(c) for c in extra}))), {"extra": extra[:5], "before": before[:30], "after": after[:30]}))
    if lost or extra:
        return out, norm
    for k in ("c2", "c3", "c4"):
        if [c for c in before if kind(c) == k] != [c for c in after if kind(c) == k]:
            out.append(("comments-lost-or-reordered", ("reordered-same-kind", k), {"before": before[:30], "after": after[:30]}))
    if out:
        return out, norm
    # only the interleaving of different kinds changed
    b23 = [c for c in before if kind(c) != "c4"]
    a23 = [c for c in after if kind(c) != "c4"]
    if b23 == a23:
        norm["module-comments-hoisted"] = 1
        return out, norm
    # accepted when the comments of every gap between two code tokens stay together
    # (`//` lines are printed above the `///` block of the same definition)
    fmt = r.get("fmt")
    if fmt is not None and _runs(src) == _runs(fmt):
        norm["comment-kinds-regrouped-within-gap"] = 1
        return out, norm
    out.append(("comments-lost-or-reordered", ("reordered-across-kinds",), {"before": before[:30], "after": after[:30]}))
    return out, norm


def _runs(text):
    """the multiset of comment groups (comments with no code token in between), module
    comments left out"""
    runs = []
    cur = []
    for t in lex.tokens(text):
        if t[0] in ("c2", "c3"):
            cur.append(t[1].rstrip())
        elif t[0] == "c4":
            continue
        else:
            if cur:
                runs.append(tuple(sorted(cur)))
                cur = []
    if cur:
        runs.append(tuple(sorted(cur)))
    return sorted(runs)


def judge(r, src):
    """-> (failures, normalised{name:n});  r must be a result with parse1 == ok (or a crash)"""
    fails = []
    norm = {}
    if "panic" in r:
        msg = re.sub(r":\d+(:\d+)?", "", r["panic"])
        return [("crash", ("panic", msg[:120]), {"panic": r["panic"]})], norm
    if "died" in r:
        return [("crash", ("died", str(r["died"])), {"died": r["died"]})], norm
    if r.get("timeout"):
        return [("crash", ("timeout",), {})], norm
    if r.get("parse1") != "ok":
        return [], norm
    if r.get("parse2") != "ok":
        m = re.search(r"kind: ([A-Za-z]+(?:\([^)]*\))?)", r.get("parse2_detail", ""))
        sig = m.group(1) if m else "?"
        sig = re.sub(r'"[^"]*"', "S", sig)
        return [("output-does-not-parse", (sig,), {"parse2_detail": r.get("parse2_detail"), "fmt": r.get("fmt")})], norm
    if not r.get("ast_eq", True):
        if "tree1" in r and "tree2" in r:
            eq, used, ds = astnorm.compare(r["tree1"], r["tree2"])
            for k, v in used.items():
                norm[k] = norm.get(k, 0) + v
            seen = set()
            for d in ds:
                sig = diff_signature(d)
                if sig in seen:
                    continue
                seen.add(sig)
                fails.append(("ast-changed", sig, {"path": d[0], "before": d[1], "after": d[2], "fmt": r.get("fmt")}))
        else:
            d = r.get("ast_diff", {})
            at = d.get("at", 0)
            b = d.get("before", [])
            a = d.get("after", [])
            i = min(3, at)
            sig = (_abstract((b[i] if i < len(b) else "<end>").strip()), _abstract((a[i] if i < len(a) else "<end>").strip()))
            fails.append(("ast-changed", ("first-diff",) + sig, {"ast_diff": d, "fmt": r.get("fmt")}))
    if not r.get("imports_eq", True):
        fails.append(("ast-changed", ("imports",), {"imports": r.get("imports")}))
    if not r.get("comments_eq", True):
        f, n = comment_failures(r, src)
        fails += f
        for k, v in n.items():
            norm[k] = norm.get(k, 0) + v
    if not r.get("idempotent", True):
        fails.append(("not-idempotent", (), {"fmt": r.get("fmt"), "fmt2": r.get("fmt2")}))
    return fails, norm


def needs_trees(r):
    if hasattr(r, "has"):
        return r.has(b'"parse1":"ok"') and r.has(b'"parse2":"ok"') and r.has(b'"ast_eq":false') and not r.has(b'"tree1":[')
    return r.get("parse1") == "ok" and r.get("parse2") == "ok" and not r.get("ast_eq", True) and "tree1" not in r
