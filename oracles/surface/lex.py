"""A Python re-implementation of the Aiken lexer (crates/aiken-lang/src/parser/lexer.rs),
good enough to cut a source text at token boundaries: comment insertion, layout changes,
token-level mutation and delta debugging all work on this token list.  It is NOT trusted
for verdicts: every text produced from it goes back through the real parser (parse1) and
only accepted texts count.

Token = (kind, text, nl) where nl = number of line breaks between the previous token and
this one (0, 1, or 2 for "at least one empty line").
kinds: c2 `//`, c3 `///`, c4 `////` (text = whole comment up to the line end), name, up,
discard, kw, int, ord, op, open, close, bytes, str, at, err
"""
import re

KEYWORDS = {
    "trace", "error", "fail", "once", "as", "and", "or", "expect", "const", "fn", "test", "if", "else",
    "is", "let", "opaque", "pub", "use", "todo", "type", "when", "validator", "via", "bench",
}

_TOKEN = re.compile(
    r"""
    (?P<ws>[ \t]+)
  | (?P<nl>\r\n|\n|\r)
  | (?P<c4>////[^\r\n]*)
  | (?P<c3>///[^\r\n]*)
  | (?P<c2>//[^\r\n]*)
  | (?P<ord>(?:0|[1-9][0-9]*)(?:st|nd|rd|th))
  | (?P<ident>[A-Za-z_][A-Za-z0-9_]*)
  | (?P<int>0x[0-9a-fA-F]+|[0-9]{1,3}(?:_[0-9]{1,3})+|0|[1-9][0-9]*)
  | (?P<op>==|=|\.\.|\.|!=|!|\?|<-|->|<=|<|>=|>|\+|-|\*|/|%|\|>|,|:|\|\||\||&&|\#)
  | (?P<open>[(\[{])
  | (?P<close>[)\]}])
  | (?P<bytes>"(?:[^\\"]|\\[\\"nrt0])*")
  | (?P<str>@"(?:[^\\"]|\\[\\"nrt0])*")
  | (?P<at>@)
  | (?P<err>.)
    """,
    re.X | re.S,
)


def tokens(src):
    out = []
    nl = 0
    for m in _TOKEN.finditer(src):
        k = m.lastgroup
        if k == "ws":
            continue
        if k == "nl":
            nl += 1
            continue
        t = m.group()
        if k == "ident":
            if t in KEYWORDS:
                k = "kw"
            elif t[0].isupper():
                k = "up"
            elif t[0] == "_":
                k = "discard"
            else:
                k = "name"
        out.append((k, t, min(nl, 2)))
        nl = 0
    return out


def is_comment(tok):
    return tok[0] in ("c2", "c3", "c4")


# a line break directly before these tokens changes their meaning (NewLineLeftParen,
# NewLineMinus, NewLinePipe in lexer.rs): layout changes must keep "preceded by a line
# break or not" for them.
NL_SENSITIVE = {"(", "-", "|>"}


def render(toks, sep=" ", nl="\n", indent=False):
    """Text of a token list.  nl counts are honoured (0 -> `sep`)."""
    out = []
    depth = 0
    prev = None
    for k, t, n in toks:
        if prev is not None:
            if is_comment(prev) and n == 0:
                n = 1
            if n >= 2:
                out.append(nl + nl)
            elif n == 1:
                out.append(nl)
            else:
                out.append(sep)
            if n and indent:
                d = depth - (1 if k == "close" else 0)
                out.append("  " * max(d, 0))
        out.append(t)
        if k == "open":
            depth += 1
        elif k == "close":
            depth -= 1
        prev = (k, t, n)
    return "".join(out) + nl


def code_tokens(toks):
    return [t for t in toks if not is_comment(t)]


def comment_texts(toks):
    """[(kind, text)] in source order, text as the driver reports it"""
    return [(k, t.rstrip()) for k, t, _ in toks if k in ("c2", "c3", "c4")]


def match_brackets(toks):
    """{open index: close index} for well-nested brackets (unbalanced ones are skipped)"""
    pairs = {}
    stack = []
    closing = {"(": ")", "[": "]", "{": "}"}
    for i, (k, t, _) in enumerate(toks):
        if k == "open":
            stack.append(i)
        elif k == "close":
            if stack and closing[toks[stack[-1]][1]] == t:
                pairs[stack.pop()] = i
            else:
                return pairs
    return pairs


DEF_START = {"fn", "pub", "const", "type", "opaque", "test", "bench", "validator", "use"}


def split_definitions(toks):
    """Cut a token list into top-level chunks: [(start, end)] index ranges, one per
    definition (a definition starts at bracket depth 0 with a definition keyword or a
    decorator `@`; comments directly before it belong to it)."""
    starts = []
    depth = 0
    i = 0
    n = len(toks)
    in_def_head = False
    while i < n:
        k, t, _ = toks[i]
        if depth == 0 and not is_comment(toks[i]):
            if (k == "kw" and t in DEF_START) or k == "at":
                if not in_def_head:
                    starts.append(i)
                    in_def_head = True
            # `pub fn`, `pub opaque type`, `@tag(1) pub type`: one head
            if k == "kw" and t in ("fn", "const", "type", "test", "bench", "validator", "use"):
                in_def_head = False if False else in_def_head
        if k == "open":
            depth += 1
        elif k == "close":
            depth -= 1
            if depth == 0:
                in_def_head = False
        elif depth == 0 and k == "kw" and t == "use":
            # imports have no closing bracket necessarily: end the head at the next line break
            j = i + 1
            while j < n and toks[j][2] == 0:
                if toks[j][0] == "open":
                    break
                j += 1
            if j >= n or toks[j][0] != "open":
                in_def_head = False
        elif depth == 0 and in_def_head and k not in ("kw", "at") and i + 1 < n and toks[i + 1][2] > 0 and _head_can_end(toks, i):
            in_def_head = False
        i += 1
    if not starts:
        return [(0, n)] if n else []
    # pull leading comments into the chunk that follows them
    cuts = []
    for s in starts:
        j = s
        while j > 0 and is_comment(toks[j - 1]):
            j -= 1
        cuts.append(j)
    cuts[0] = 0
    out = []
    for a, b in zip(cuts, cuts[1:] + [n]):
        if b > a:
            out.append((a, b))
    return out


def _head_can_end(toks, i):
    """a bracket-less definition (`const x = 1`, `type A = Int`, `use a/b`) ends at a line
    end when the next token starts a definition"""
    if i + 1 >= len(toks):
        return True
    k, t, _ = toks[i + 1]
    if is_comment(toks[i + 1]):
        return False
    return (k == "kw" and t in DEF_START) or k == "at"


def spans(src):
    """like tokens() but with offsets: [(kind, text, nl, start, end)]"""
    out = []
    nl = 0
    for m in _TOKEN.finditer(src):
        k = m.lastgroup
        if k == "ws":
            continue
        if k == "nl":
            nl += 1
            continue
        t = m.group()
        if k == "ident":
            k = "kw" if t in KEYWORDS else "up" if t[0].isupper() else "discard" if t[0] == "_" else "name"
        out.append((k, t, min(nl, 2), m.start(), m.end()))
        nl = 0
    return out
