"""A Python re-implementation of the Aiken lexer (crates/aiken-lang/src/parser/lexer.rs),
good enough to cut a source text at token boundaries: comment insertion, layout changes,
token-level mutation and delta debugging all work on this token list.  It is NOT trusted
for verdicts: every text produced from it goes back through the real parser (parse1) and
only accepted texts count.

Token = (kind, text, nl) where nl = number of line breaks between the previous token and
this one (0, 1, or 2 for "at least one empty line").
kinds: c2 `//`, c3 `///`, c4 `////` (text = whole comment up to the line end), name, up,
discard, kw, int, ord, op, open, close, bytes, str, at, err
"""
import re

KEYWORDS = {
    "trace", "error", "fail", "once", "as", "and", "or", "expect", "const", "fn", "test", "if", "else",
    "is", "let", "opaque", "pub", "use", "todo", "type", "when", "validator", "via", "bench",
}

_TOKEN = re.compile(
    r"""
    (?P<ws>[ \t]+)
  | (?P<nl>\r\n|\n|\r)
  | (?P<c4>////[^\r\n]*)
  | (?P<c3>///[^\r\n]*)
  | (?P<c2>//[^\r\n]*)
  | (?P<ord>(?:0|[1-9][0-9]*)(?:st|nd|rd|th))
  | (?P<ident>[A-Za-z_][A-Za-z0-9_]*)
  | (?P<int>0x[0-9a-fA-F]+|[0-9]{1,3}(?:_[0-9]{1,3})+|0|[1-9][0-9]*)
  | (?P<op>==|=|\.\.|\.|!=|!|\?|<-|->|<=|<|>=|>|\+|-|\*|/|%|\|>|,|:|\|\||\||&&|\#)
  | (?P<open>[(\[{])
  | (?P<close>[)\]}])
  | (?P<bytes>"(?:[^\\"]|\\[\\"nrt0])*")
  | (?P<str>@"(?:[^\\"]|\\[\\"nrt0])*")
  | (?P<at>@)
  | (?P<err>.)
    """,
    re.X | re.S,
)


def tokens(src):
    out = []
    nl = 0
    for m in _TOKEN.finditer(src):
        k = m.lastgroup
        if k == "ws":
            continue
        if k == "nl":
            nl += 1
            continue
        t = m.group()
        if k == "ident":
            if t in KEYWORDS:
                k = "kw"
            elif t[0].isupper():
                k = "up"
            elif t[0] == "_":
                k = "discard"
            else:
                k = "name"
        out.append((k, t, min(nl, 2)))
        nl = 0
    if nl >= 2 and out:
        out.append(("eof", "", min(nl, 4)))  # blank lines at the end of the module are layout too
    return out


def is_comment(tok):
    return tok[0] in ("c2", "c3", "c4")


# a line break directly before these tokens changes their meaning (NewLineLeftParen,
# NewLineMinus, NewLinePipe in lexer.rs): layout changes must keep "preceded by a line
# break or not" for them.
NL_SENSITIVE = {"(", "-", "|>"}


def render(toks, sep=" ", nl="\n", indent=False):
    """Text of a token list.  nl counts are honoured (0 -> `sep`)."""
    out = []
    depth = 0
    prev = None
    for k, t, n in toks:
        if k == "eof":
            out.append(nl * max(n - 1, 0))
            continue
        if prev is None and n:
            out.append(nl * min(n, 2))  # leading blank lines are layout too
        if prev is not None:
            if is_comment(prev) and n == 0:
                n = 1
            if n >= 2:
                out.append(nl + nl)
            elif n == 1:
                out.append(nl)
            else:
                out.append(sep)
            if n and indent:
                d = depth - (1 if k == "close" else 0)
                out.append("  " * max(d, 0))
        out.append(t)
        if k == "open":
            depth += 1
        elif k == "close":
            depth -= 1
        prev = (k, t, n)
    return "".join(out) + nl


def code_tokens(toks):
    return [t for t in toks if not is_comment(t)]


def comment_texts(toks):
    """[(kind, text)] in source order, text as the driver reports it"""
    return [(k, t.rstrip()) for k, t, _ in toks if k in ("c2", "c3", "c4")]


def match_brackets(toks):
    """{open index: close index} for well-nested brackets (unbalanced ones are skipped)"""
    pairs = {}
    stack = []
    closing = {"(": ")", "[": "]", "{": "}"}
    for i, (k, t, _) in enumerate(toks):
        if k == "open":
            stack.append(i)
        elif k == "close":
            if stack and closing[toks[stack[-1]][1]] == t:
                pairs[stack.pop()] = i
            else:
                return pairs
    return pairs


DEF_START = {"fn", "pub", "const", "type", "opaque", "test", "bench", "validator", "use"}


def split_definitions(toks):
    """Cut a token list into top-level chunks [(start, end)], one per definition.  A
    definition starts at bracket depth 0 with `pub`/`opaque`/`const`/`type`/`test`/`bench`/
    `validator`/`use`/`@`, or `fn` followed by a name (an anonymous `fn(` is an expression),
    unless the head of the current definition is still open (`@tag(1) pub opaque type`).
    Comments directly before a definition belong to it."""
    main = {"fn", "const", "type", "test", "bench", "validator", "use"}
    starts = []
    depth = 0
    head_open = False
    n = len(toks)
    for i, (k, t, _) in enumerate(toks):
        if is_comment(toks[i]):
            continue
        if depth == 0:
            is_start = k == "at" or (k == "kw" and t in DEF_START and (t != "fn" or (i + 1 < n and toks[i + 1][0] in ("name", "discard", "up"))))
            if is_start:
                if not head_open:
                    starts.append(i)
                    head_open = True
                if k == "kw" and t in main:
                    head_open = False
        if k == "open":
            depth += 1
        elif k == "close":
            depth = max(depth - 1, 0)
    if not starts:
        return [(0, n)] if n else []
    cuts = []
    for st in starts:
        j = st
        while j > 0 and is_comment(toks[j - 1]):
            j -= 1
        cuts.append(j)
    cuts[0] = 0
    out = []
    for a, b in zip(cuts, cuts[1:] + [n]):
        if b > a:
            out.append((a, b))
    return out


def spans(src):
    """like tokens() but with offsets: [(kind, text, nl, start, end)]"""
    out = []
    nl = 0
    for m in _TOKEN.finditer(src):
        k = m.lastgroup
        if k == "ws":
            continue
        if k == "nl":
            nl += 1
            continue
        t = m.group()
        if k == "ident":
            k = "kw" if t in KEYWORDS else "up" if t[0].isupper() else "discard" if t[0] == "_" else "name"
        out.append((k, t, min(nl, 2), m.start(), m.end()))
        nl = 0
    return out
