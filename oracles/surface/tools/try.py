#!/usr/bin/env python3
"""try.py: feed snippets (args, or stdin separated by lines of '----') to the fmt op and print the verdicts"""
import json, subprocess, sys, os
EXE = os.path.join(os.path.dirname(os.path.abspath(__file__)), "../../../target/release/aiken-run")
def run(srcs, trees=False):
    inp = "".join(json.dumps({"id": i, "op": "fmt", "src": s, "keep_text": True, "trees": trees}) + "\n" for i, s in enumerate(srcs))
    p = subprocess.run([EXE], input=inp.encode(), stdout=subprocess.PIPE)
    return [json.loads(l) for l in p.stdout.decode().splitlines()]
if __name__ == "__main__":
    srcs = sys.argv[1:] or [x.strip("\n") + "\n" for x in sys.stdin.read().split("\n----\n")]
    for s, r in zip(srcs, run(srcs)):
        flags = {k: r.get(k) for k in ("parse1", "parse2", "ast_eq", "comments_eq", "idempotent") if k in r}
        print("SRC:", s.strip()); print("  ", flags)
        if r.get("parse1") == "ok": print("   FMT:", r.get("fmt", "").strip().replace("\n", "\n        "))
        for k in ("parse2_detail", "ast_diff", "comments_diff", "fmt2", "panic"):
            if k in r: print("  ", k, json.dumps(r[k])[:600])
