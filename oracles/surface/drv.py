"""Pipelined JSONL runner for the `fmt` driver op (same contract as common.run_jobs: a dead
driver is attributed to the job in flight as {"died": rc}, a silent driver as
{"timeout": True}), but without one Python round trip per job: every shard gets its whole
job list written by a feeder thread while the results are read back in order (the driver
answers strictly in input order, so the first unanswered job is the one in flight).
Results are memoised by source text for the lifetime of the process (minimisation asks the
same question many times)."""
import json
import os
import select
import subprocess
import threading
import time

import common

_CACHE = {}
STATS = {"driver_jobs": 0, "cache_hits": 0, "driver_seconds": 0.0}


class _Worker:
    """one long-lived driver process; restarted after a death / hang"""

    def __init__(self, exe, env):
        self.exe = exe
        self.env = env
        self.p = None

    def start(self):
        self.p = subprocess.Popen([self.exe], stdin=subprocess.PIPE, stdout=subprocess.PIPE, stderr=subprocess.DEVNULL, env=self.env)

    def stop(self):
        if self.p is not None:
            try:
                self.p.stdin.close()
            except OSError:
                pass
            try:
                self.p.kill()
            except OSError:
                pass
            self.p.wait()
            self.p = None

    def run(self, jobs, timeout, results):
        pos = 0
        while pos < len(jobs):
            part = jobs[pos:]
            if self.p is None or self.p.poll() is not None:
                self.start()
            p = self.p

            def feed(proc=p, items=part):
                try:
                    for j in items:
                        proc.stdin.write((json.dumps(j) + "\n").encode())
                    proc.stdin.flush()
                except (BrokenPipeError, OSError, ValueError):
                    pass

            th = threading.Thread(target=feed, daemon=True)
            th.start()
            done = 0
            buf = b""
            fd = p.stdout.fileno()
            last = time.time()
            status = "ok"
            while done < len(part):
                r, _, _ = select.select([fd], [], [], 1.0)
                if not r:
                    if time.time() - last > timeout:
                        status = "timeout"
                        break
                    continue
                chunk = os.read(fd, 1 << 16)
                if not chunk:
                    status = "eof"
                    break
                buf += chunk
                while b"\n" in buf:
                    line, buf = buf.split(b"\n", 1)
                    if not line.strip():
                        continue
                    try:
                        res = json.loads(line)
                    except json.JSONDecodeError:
                        res = {"harness_error": "bad driver output"}
                    results[part[done]["id"]] = res
                    done += 1
                    last = time.time()
            if status == "ok":
                th.join()
                return
            if status == "timeout":
                self.stop()
                results[part[done]["id"]] = {"timeout": True}
            else:
                rc = p.wait()
                self.p = None
                results[part[done]["id"]] = {"died": rc}
            pos += done + 1


_POOL = []


def _pool(n, env):
    exe = common.bin_path("aiken-run")
    while len(_POOL) < n:
        _POOL.append(_Worker(exe, env))
    return _POOL[:n]


def shutdown():
    for w in _POOL:
        w.stop()
    del _POOL[:]


import atexit  # noqa: E402

atexit.register(shutdown)


def run_raw(jobs, timeout=30.0, shards=None, env=None):
    """jobs: dicts with unique 'id' -> {id: result}"""
    if not jobs:
        return {}
    environ = dict(os.environ)
    if env:
        environ.update(env)
    n = shards or max(1, min(common.NCPU, len(jobs) // 4))
    workers = _pool(n, environ)
    parts = [jobs[i::n] for i in range(n)]
    results = {}
    t0 = time.time()
    threads = [threading.Thread(target=w.run, args=(part, timeout, results)) for w, part in zip(workers, parts) if part]
    for t in threads:
        t.start()
    for t in threads:
        t.join()
    STATS["driver_jobs"] += len(jobs)
    STATS["driver_seconds"] += time.time() - t0
    return results


def fmt_many(sources, trees=False, keep_text=True, timeout=30.0, use_cache=True):
    """[src] -> [result] (same order).  With trees=True a cached result without trees is
    re-asked."""
    out = [None] * len(sources)
    jobs = []
    ask = {}
    for i, s in enumerate(sources):
        key = (s, bool(trees))
        if use_cache and key in _CACHE:
            out[i] = _CACHE[key]
            STATS["cache_hits"] += 1
            continue
        if key in ask:
            ask[key].append(i)
            continue
        ask[key] = [i]
        jobs.append({"id": len(jobs), "op": "fmt", "src": s, "keep_text": keep_text, "trees": bool(trees)})
    keys = list(ask.keys())
    res = run_raw(jobs, timeout=timeout)
    for jid, key in enumerate(keys):
        r = res.get(jid, {"harness_error": "no result"})
        if use_cache and len(key[0]) < 4000:
            _CACHE[key] = r
        for i in ask[key]:
            out[i] = r
    return out


def clear_cache():
    _CACHE.clear()
