"""Pipelined JSONL runner for the `fmt` driver op (same contract as common.run_jobs: a dead
driver is attributed to the job in flight as {"died": rc}, a silent driver as
{"timeout": True}), but without one Python round trip per job: every shard gets its whole
job list written by a feeder thread while the results are read back in order (the driver
answers strictly in input order, so the first unanswered job is the one in flight).
Results are memoised by source text for the lifetime of the process (minimisation asks the
same question many times)."""
import json
import os
import select
import subprocess
import time

import common

_CACHE = {}
STATS = {"driver_jobs": 0, "cache_hits": 0, "driver_seconds": 0.0}


class _Worker:
    """one long-lived driver process; restarted after a death / hang"""

    def __init__(self, exe, env):
        self.exe = exe
        self.env = env
        self.p = None

    def start(self):
        self.p = subprocess.Popen([self.exe], stdin=subprocess.PIPE, stdout=subprocess.PIPE, stderr=subprocess.DEVNULL, env=self.env, bufsize=0)
        os.set_blocking(self.p.stdin.fileno(), False)

    def stop(self):
        if self.p is not None:
            try:
                self.p.stdin.close()
            except OSError:
                pass
            try:
                self.p.kill()
            except OSError:
                pass
            self.p.wait()
            self.p = None

    def assign(self, jobs):
        """(re)load the job list to run; starts the process if needed"""
        if self.p is None or self.p.poll() is not None:
            self.start()
        self.jobs = jobs
        self.done = 0
        self.out = b"".join((json.dumps(j) + "\n").encode() for j in jobs)
        self.wpos = 0
        self.buf = b""
        self.last = time.time()


_POOL = []


def _pool(n, env):
    exe = common.bin_path("aiken-run")
    while len(_POOL) < n:
        _POOL.append(_Worker(exe, env))
    return _POOL[:n]


def shutdown():
    for w in _POOL:
        w.stop()
    del _POOL[:]


import atexit  # noqa: E402

atexit.register(shutdown)


def run_raw(jobs, timeout=30.0, shards=None, env=None):
    """jobs: dicts with unique 'id' -> {id: result}.  One select() loop over all workers
    (no threads): job lists are written as fast as the pipes take them, results are read
    back in order."""
    if not jobs:
        return {}
    environ = dict(os.environ)
    if env:
        environ.update(env)
    n = shards or max(1, min(common.NCPU, len(jobs) // 4))
    workers = _pool(n, environ)
    results = {}
    t0 = time.time()
    active = []
    for w, part in zip(workers, [jobs[i::n] for i in range(n)]):
        if part:
            w.assign(part)
            active.append(w)
    while active:
        rfds = {w.p.stdout.fileno(): w for w in active}
        wfds = {w.p.stdin.fileno(): w for w in active if w.wpos < len(w.out)}
        r, wr, _ = select.select(list(rfds), list(wfds), [], 1.0)
        now = time.time()
        for fd in wr:
            w = wfds[fd]
            try:
                k = os.write(fd, w.out[w.wpos: w.wpos + (1 << 16)])
                w.wpos += k
            except BlockingIOError:
                pass
            except (BrokenPipeError, OSError):
                w.wpos = len(w.out)
        for fd in r:
            w = rfds[fd]
            chunk = os.read(fd, 1 << 18)
            if not chunk:
                # the process ended: the first unanswered job was in flight
                rc = w.p.wait()
                w.p = None
                if w.done < len(w.jobs):
                    results[w.jobs[w.done]["id"]] = json.dumps({"died": rc}).encode()
                    rest = w.jobs[w.done + 1:]
                    if rest:
                        w.assign(rest)
                    else:
                        active.remove(w)
                else:
                    active.remove(w)
                continue
            w.buf += chunk
            w.last = now
            while b"\n" in w.buf:
                line, w.buf = w.buf.split(b"\n", 1)
                if not line.strip():
                    continue
                if w.done < len(w.jobs):
                    results[w.jobs[w.done]["id"]] = line
                    w.done += 1
            if w.done >= len(w.jobs) and w in active:
                active.remove(w)
        for w in list(active):
            if now - w.last > timeout and w.done < len(w.jobs):
                w.stop()
                results[w.jobs[w.done]["id"]] = b'{"timeout":true}'
                rest = w.jobs[w.done + 1:]
                if rest:
                    w.assign(rest)
                else:
                    active.remove(w)
    STATS["driver_jobs"] += len(jobs)
    STATS["driver_seconds"] += time.time() - t0
    return results


class Res:
    """one driver answer, decoded lazily: the verdict flags are found by byte search (the
    driver writes compact JSON, and inside JSON strings every quote is escaped, so the
    patterns below can only match real top-level fields)"""

    __slots__ = ("raw", "_d")

    def __init__(self, raw):
        self.raw = raw
        self._d = None

    def data(self):
        if self._d is None:
            try:
                self._d = json.loads(self.raw)
            except json.JSONDecodeError:
                self._d = {"harness_error": "bad driver output"}
        return self._d

    def has(self, pat):
        return pat in self.raw

    # dict-like access (decodes)
    def get(self, k, default=None):
        return self.data().get(k, default)

    def __contains__(self, k):
        return k in self.data()

    def __getitem__(self, k):
        return self.data()[k]

    def items(self):
        return self.data().items()

    @property
    def parsed(self):
        return b'"parse1":"ok"' in self.raw

    @property
    def rejected(self):
        return b'"parse1":"err"' in self.raw

    @property
    def clean(self):
        """accepted and nothing to report"""
        r = self.raw
        return (b'"parse1":"ok"' in r and b'"parse2":"ok"' in r and b'"ast_eq":true' in r and b'"comments_eq":true' in r
                and b'"idempotent":true' in r and b'"imports_eq":true' in r)


def fmt_many(sources, trees=False, keep_text=True, timeout=30.0, use_cache=True):
    """[src] -> [Res] (same order).  `trees` may be a bool or a list of bools."""
    out = [None] * len(sources)
    jobs = []
    ask = {}
    tl = trees if isinstance(trees, (list, tuple)) else None
    for i, s in enumerate(sources):
        tr = bool(tl[i]) if tl is not None else bool(trees)
        key = (s, tr)
        kt = keep_text or "///" in s  # doc comments: the text is needed for the anchor check
        if use_cache and key in _CACHE:
            out[i] = _CACHE[key]
            STATS["cache_hits"] += 1
            continue
        if key in ask:
            ask[key].append(i)
            continue
        ask[key] = [i]
        jobs.append({"id": len(jobs), "op": "fmt", "src": s, "keep_text": kt, "trees": tr})
    keys = list(ask.keys())
    res = run_raw(jobs, timeout=timeout)
    for jid, key in enumerate(keys):
        raw = res.get(jid)
        r = Res(raw if raw is not None else b'{"harness_error":"no result"}')
        if use_cache and len(key[0]) < 4000 and len(r.raw) < 6000:
            if len(_CACHE) > 400000:
                _CACHE.clear()
            _CACHE[key] = r
        for i in ask[key]:
            out[i] = r
    return out


def clear_cache():
    _CACHE.clear()
