"""Comparison of the position-erased syntax trees returned by the driver (`fmt` op with
"trees": true: the `{:#?}` rendering, one line per list element).

The lines are parsed back into a tree (node = [head, child, ...], leaf = str), a small set
of DOCUMENTED semantics-neutral rewrites (NOTES.md, "accepted normalisations") is applied
to both sides, and ALL remaining differences are reported (path + both sides), so that an
accepted normalisation can never mask a real change further down the same definition.
"""

OPEN = ("{", "(", "[")


def parse(lines):
    """-> list of top-level nodes"""
    root = ["<root> ["]
    stack = [root]
    for raw in lines:
        s = raw.strip()
        if not s:
            continue
        if s in ("}", ")", "]", "},", "),", "],"):
            if len(stack) > 1:
                stack.pop()
            continue
        if s.endswith(OPEN) and not s.endswith(","):
            node = [s]
            stack[-1].append(node)
            stack.append(node)
        else:
            stack[-1].append(s[:-1] if s.endswith(",") else s)
    return root


def head_split(head):
    """'then: Sequence {' -> ('then: ', 'Sequence {')"""
    if ": " in head and not head.startswith('"'):
        i = head.index(": ")
        field = head[:i]
        if field.replace("_", "").isalnum():
            return head[: i + 2], head[i + 2:]
    return "", head


def is_node(x):
    return isinstance(x, list)


def child(node, field):
    for c in node[1:]:
        if is_node(c):
            if c[0].startswith(field + ": "):
                return c
        elif c.startswith(field + ": "):
            return c
    return None


# ------------------------------------------------------------------ accepted normalisations
# Every rule is justified in NOTES.md.  A rule returns a replacement node (or None).


def n_singleton_sequence(node):
    """Sequence { expressions: [X] }  ==  X   (a block with one expression IS that
    expression; the parser itself builds the wrapper only around a lone let/expect)"""
    prefix, h = head_split(node[0])
    if h != "Sequence {":
        return None
    ex = child(node, "expressions")
    if not is_node(ex) or len(ex) != 2 or not is_node(ex[1]):
        return None
    inner = ex[1]
    return [prefix + inner[0]] + inner[1:]


RULES = {
    "singleton-sequence": n_singleton_sequence,
}


def normalise(node, used=None, rules=None):
    rules = RULES if rules is None else rules
    if not is_node(node):
        return node
    out = [node[0]] + [normalise(c, used, rules) for c in node[1:]]
    changed = True
    while changed:
        changed = False
        for name, rule in rules.items():
            r = rule(out)
            if r is not None:
                out = r
                if used is not None:
                    used[name] = used.get(name, 0) + 1
                changed = True
    return out


# ------------------------------------------------------------------ diff


def summary(x, depth=2, width=6):
    if not is_node(x):
        return x
    if depth == 0:
        return x[0] + "…"
    kids = [summary(c, depth - 1, width) for c in x[1: 1 + width]]
    more = ", …" if len(x) - 1 > width else ""
    return x[0] + " " + ", ".join(k for k in kids if not k.startswith("location: ")) + more


def diffs(a, b, path="", out=None, limit=20):
    """all minimal differing sub-trees: [(path, before, after)]"""
    if out is None:
        out = []
    if len(out) >= limit:
        return out
    if is_node(a) and is_node(b) and a[0] == b[0] and len(a) == len(b):
        _, h = head_split(a[0])
        here = path + "/" + a[0].rstrip(" {([")
        for x, y in zip(a[1:], b[1:]):
            if x != y:
                diffs(x, y, here, out, limit)
        return out
    if is_node(a) and is_node(b) and a[0] == b[0]:
        # same constructor, different number of children (list length change)
        out.append((path + "/" + a[0].rstrip(" {(["), f"{len(a) - 1} items: " + summary(a, 2, 8), f"{len(b) - 1} items: " + summary(b, 2, 8)))
        return out
    if a != b:
        out.append((path, summary(a), summary(b)))
    return out


def compare(tree1_lines, tree2_lines):
    """-> (equal_after_normalisation, rules_used{name:n}, [(path, before, after)])"""
    used = {}
    a = normalise(parse(tree1_lines), used)
    b = normalise(parse(tree2_lines), used)
    if a == b:
        return True, used, []
    return False, used, diffs(a, b)
