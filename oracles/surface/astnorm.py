"""Comparison of the position-erased syntax trees returned by the driver (`fmt` op with
"trees": true: the `{:#?}` rendering, one line per list element).

The lines are parsed back into a tree (node = [head, child, ...], leaf = str), a small set
of DOCUMENTED semantics-neutral rewrites (NOTES.md, "accepted normalisations") is applied
to both sides, and ALL remaining differences are reported (path + both sides), so that an
accepted normalisation can never mask a real change further down the same definition.
"""

OPEN = ("{", "(", "[")


def parse(lines):
    """-> list of top-level nodes"""
    root = ["<root> ["]
    stack = [root]
    for raw in lines:
        s = raw.strip()
        if not s:
            continue
        if s in ("}", ")", "]", "},", "),", "],"):
            if len(stack) > 1:
                stack.pop()
            continue
        if s.endswith(OPEN) and not s.endswith(","):
            node = [s]
            stack[-1].append(node)
            stack.append(node)
        else:
            stack[-1].append(s[:-1] if s.endswith(",") else s)
    return root


def head_split(head):
    """'then: Sequence {' -> ('then: ', 'Sequence {')"""
    if ": " in head and not head.startswith('"'):
        i = head.index(": ")
        field = head[:i]
        if field.replace("_", "").isalnum():
            return head[: i + 2], head[i + 2:]
    return "", head


def is_node(x):
    return isinstance(x, list)


def child(node, field):
    for c in node[1:]:
        if is_node(c):
            if c[0].startswith(field + ": "):
                return c
        elif c.startswith(field + ": "):
            return c
    return None


# ------------------------------------------------------------------ accepted normalisations
# Every rule is justified in NOTES.md.  A rule returns a replacement node (or None).


def n_singleton_sequence(node):
    """Sequence { expressions: [X] }  ==  X   (a block with one expression IS that
    expression; the parser itself builds the wrapper only around a lone let/expect)"""
    prefix, h = head_split(node[0])
    if h != "Sequence {":
        return None
    ex = child(node, "expressions")
    if not is_node(ex) or len(ex) != 2 or not is_node(ex[1]):
        return None
    inner = ex[1]
    return [prefix + inner[0]] + inner[1:]


def _leaf(node, field):
    c = child(node, field)
    return c if isinstance(c, str) else None


def n_pipe_first_hole(node):
    """inside a pipeline (not in head position):  f(_, a, b)  ==  f(a, b)   and   f(_) == f
    (the pipe operator supplies the first positional argument either way).  Only when the
    capture has exactly ONE hole, in the FIRST position, WITHOUT a label."""
    _, h = head_split(node[0])
    if h != "PipeLine {":
        return None
    ex = child(node, "expressions")
    if not is_node(ex):
        return None
    changed = False
    new_items = [ex[0]]
    for idx, item in enumerate(ex[1:]):
        r = _uncapture(item) if idx >= 1 and is_node(item) else None
        if r is not None:
            changed = True
            new_items.append(r)
        else:
            new_items.append(item)
    if not changed:
        return None
    return [node[0]] + [new_items if c is ex else c for c in node[1:]]


def _uncapture(item):
    if item[0] != "Fn {" or _leaf(item, "fn_style") != "fn_style: Capture":
        return None
    args = child(item, "arguments")
    body = child(item, "body")
    if not is_node(args) or len(args) != 2 or not is_node(body) or body[0] != "body: Call {":
        return None
    cargs = child(body, "arguments")
    fun = child(body, "fun")
    if not is_node(cargs) or len(cargs) < 2 or fun is None:
        return None
    first = cargs[1]
    if not is_node(first) or _leaf(first, "label") != "label: None":
        return None
    v = child(first, "value")
    if not is_node(v) or v[0] != "value: Var {":
        return None
    name = _leaf(v, "name") or ""
    if not name.startswith('name: "_capture__0_'):
        return None
    rest = cargs[2:]
    if not rest:
        if is_node(fun):
            return [fun[0][len("fun: "):]] + fun[1:]
        return fun[len("fun: "):]
    return ["Call {", [cargs[0]] + rest] + [c for c in body[1:] if c is not cargs]


def n_numeric_underscore(node):
    """Decimal { numeric_underscore: true }: a spelling preference of a decimal literal
    (1_0 and 10 are the same number; the driver already erases the analogous `one_liner`
    layout flag).  The VALUE next to it is still compared."""
    if node[0].endswith("Decimal {") and node[1:] == ["numeric_underscore: true"]:
        return [node[0], "numeric_underscore: false"]
    return None


def n_empty_record_pattern(node):
    """pattern `Foo {}` == `Foo` == `Foo()`: without fields and without `..` the record
    flag only remembers which brackets were typed"""
    _, h = head_split(node[0])
    if h != "Constructor {":
        return None
    if "is_record: true" in node and "arguments: []" in node and "spread_location: None" in node:
        return [("is_record: false" if c == "is_record: true" else c) for c in node]
    return None


RULES = {
    "singleton-sequence": n_singleton_sequence,
    "pipe-first-hole": n_pipe_first_hole,
    "numeric-underscore-flag": n_numeric_underscore,
    "empty-record-pattern": n_empty_record_pattern,
}


def normalise(node, used=None, rules=None):
    rules = RULES if rules is None else rules
    if not is_node(node):
        return node
    out = [node[0]] + [normalise(c, used, rules) for c in node[1:]]
    changed = True
    while changed:
        changed = False
        for name, rule in rules.items():
            r = rule(out)
            if r is not None:
                out = r
                if used is not None:
                    used[name] = used.get(name, 0) + 1
                changed = True
    return out


# ------------------------------------------------------------------ diff


def summary(x, depth=2, width=6):
    if not is_node(x):
        return x
    if depth == 0:
        return x[0] + "…"
    kids = [summary(c, depth - 1, width) for c in x[1: 1 + width]]
    more = ", …" if len(x) - 1 > width else ""
    return x[0] + " " + ", ".join(k for k in kids if not k.startswith("location: ")) + more


def diffs(a, b, path="", out=None, limit=20):
    """all minimal differing sub-trees: [(path, before, after)]"""
    if out is None:
        out = []
    if len(out) >= limit:
        return out
    if is_node(a) and is_node(b) and a[0] == b[0] and len(a) == len(b):
        _, h = head_split(a[0])
        here = path + "/" + a[0].rstrip(" {([")
        for x, y in zip(a[1:], b[1:]):
            if x != y:
                diffs(x, y, here, out, limit)
        return out
    if is_node(a) and is_node(b) and a[0] == b[0]:
        # same constructor, different number of children (list length change)
        out.append((path + "/" + a[0].rstrip(" {(["), f"{len(a) - 1} items: " + summary(a, 2, 8), f"{len(b) - 1} items: " + summary(b, 2, 8)))
        return out
    if a != b:
        out.append((path, summary(a), summary(b)))
    return out


def compare(tree1_lines, tree2_lines):
    """-> (equal_after_normalisation, rules_used{name:n}, [(path, before, after)])"""
    used = {}
    a = normalise(parse(tree1_lines), used)
    b = normalise(parse(tree2_lines), used)
    if a == b:
        return True, used, []
    return False, used, diffs(a, b)
