#!/usr/bin/env python3
"""C13 - the formatter preserves programs.

    python3 run_c13.py --tier quick|thorough --seed S [--json] [--show N]
    run(tier, seed) -> dict(evaluations, distinct, samples, violations, violation_counts,
                            inconclusive, counters, coverage_extra)

Workload (G-surface): seeds harvested from the working tree (shipped .ak files, raw strings
of the repository's own tests, parser unit-test snippets), the systematic enumeration of the
surface grammar (gen_sys.py), random grammar modules (gen.py), comment insertion
(comments.py) and structure-preserving / layout mutation (mutate.py) of all of them.
Only inputs the real parser accepts (parse1 == ok) count.

Checks per accepted input (judge.py): the formatter's output parses; it parses to the same
position-erased tree modulo the documented normalisations (astnorm.py, NOTES.md); every
comment is retained in order; formatting the output again changes nothing; no panic / abort.
Every failure is isolated to one definition where possible, minimised by delta debugging and
named after the construct left in the minimal input (triage.py, classes.py):

    C13|output-does-not-parse|<class>   C13|ast-changed|<class>
    C13|comments-lost-or-reordered|<class>   C13|not-idempotent|<class>   C13|crash|<what>|<class>
"""
import hashlib
import json
import os
import sys
import time

_HERE = os.path.dirname(os.path.abspath(__file__))
if os.path.dirname(_HERE) not in sys.path:
    sys.path.insert(0, os.path.dirname(_HERE))
sys.path[:] = [p for p in sys.path if os.path.abspath(p or os.getcwd()) != _HERE]

import common  # noqa: E402
import harvest  # noqa: E402
from surface import classes, comments, drv, gen, gen_sys, judge, lex, mutate, triage  # noqa: E402

TIERS = {
    "smoke": dict(n_random=300, sys_every=8, seed_comment=1, seed_dense=False, seed_mut=1, gen_comment_every=10, gen_mut_every=10, max_min=2000),
    "quick": dict(n_random=3000, sys_every=1, seed_comment=2, seed_dense=True, seed_mut=2, gen_comment_every=5, gen_mut_every=5, max_min=12000),
    "thorough": dict(n_random=70000, sys_every=1, seed_comment=20, seed_dense=True, seed_mut=15, gen_comment_every=1, gen_mut_every=1, gen_mut_n=1, max_min=120000),
}
WRAPS = [
    ("expr", "fn snippet__() {\n%s\n}\n"),
    ("pattern", "fn snippet__() {\n  when subject__ is {\n    %s -> 1\n  }\n}\n"),
    ("annotation", "type Snippet__ =\n  %s\n"),
    ("clause", "fn snippet__() {\n  when subject__ is {\n    %s\n  }\n}\n"),
]
CHUNK = 25000


class Run:
    def __init__(self, tier, seed):
        self.tier = tier
        self.cfg = TIERS[tier]
        self.seed = seed
        self.counters = {}
        self.inconclusive = {}
        self.tag_ok = {}
        self.tag_bad = {}
        self.distinct = set()
        self.samples = []
        self.failing = []  # (src, origin, [(kind, sig, detail)])
        self.norm = {}
        self.accepted = 0
        self.stream = 0

    def count(self, k, n=1):
        self.counters[k] = self.counters.get(k, 0) + n

    def rng(self):
        self.stream += 1
        return common.Rng(self.seed, self.stream)

    # -------------------------------------------------------------- evaluation of a batch
    def evaluate(self, inputs):
        """inputs: [(src, origin, tags or None)] -> [accepted?]; failing ones are kept"""
        acc = []
        for lo in range(0, len(inputs), CHUNK):
            part = inputs[lo: lo + CHUNK]
            srcs = [x[0] for x in part]
            res = drv.fmt_many(srcs, keep_text=False, use_cache=False)
            need = [i for i, r in enumerate(res) if judge.needs_trees(r)]
            if need:
                r2 = drv.fmt_many([srcs[i] for i in need], trees=True, keep_text=True, use_cache=False)
                for i, r in zip(need, r2):
                    res[i] = r
            for (src, origin, tags), r in zip(part, res):
                kind = origin.split(":")[0]
                clean = r.clean
                if not clean and not r.rejected:
                    if "harness_error" in r:
                        self.inconclusive["harness-error"] = self.inconclusive.get("harness-error", 0) + 1
                        acc.append(False)
                        continue
                    if r.get("timeout") and len(src) > 3000:
                        self.inconclusive["timeout-large-input"] = self.inconclusive.get("timeout-large-input", 0) + 1
                        acc.append(False)
                        continue
                if r.rejected:
                    self.count("rejected:" + kind)
                    if tags:
                        for t in tags:
                            self.tag_bad[t] = self.tag_bad.get(t, 0) + 1
                    acc.append(False)
                    continue
                acc.append(True)
                self.accepted += 1
                self.count("accepted:" + kind)
                self.distinct.add(hashlib.sha256(src.encode()).digest()[:10])
                if tags:
                    for t in tags:
                        self.tag_ok[t] = self.tag_ok.get(t, 0) + 1
                if len(self.samples) < 8 and self.accepted % 977 == 1:
                    self.samples.append({"origin": origin, "source": src[:300], "comments": r.get("comments"), "ast_lines": r.get("defs_lines")})
                if clean and "///" not in src:
                    continue
                fails, norm = judge.judge(r.data(), src)
                for k, v in norm.items():
                    self.norm[k] = self.norm.get(k, 0) + 1
                if fails:
                    self.failing.append((src, origin, fails))
        return acc


def harvest_seeds(run):
    seeds = []
    for name, src in harvest.shipped_ak_files():
        seeds.append((src, "shipped:" + name, None))
    run.count("shipped_files_found", len(seeds))
    raws = harvest.raw_sources(harvest.TEST_FILES + harvest.SURFACE_FILES) + harvest.parser_snippets()
    run.count("harvested_raw_strings", len(raws))
    for name, src in raws:
        seeds.append((src, "harvest:" + name, None))
    return seeds


def _progress(msg, t0):
    if os.environ.get("C13_PROGRESS"):
        sys.stderr.write(f"[c13 {time.time() - t0:7.1f}s] {msg}\n")
        sys.stderr.flush()


def run(tier="quick", seed=0):
    t0 = time.time()
    R = Run(tier, seed)
    cfg = R.cfg

    # ---- 1. seeds (modules; snippets that are not modules are retried inside a wrapper)
    seeds = harvest_seeds(R)
    ok = R.evaluate(seeds)
    bases = [s for s, a in zip(seeds, ok) if a]
    retry = []
    for (src, origin, _), a in zip(seeds, ok):
        if not a and origin.startswith("harvest:"):
            for wname, tpl in WRAPS:
                retry.append((tpl % src.strip("\n"), origin + "@" + wname, None))
    if retry:
        ok2 = R.evaluate(retry)
        seen = set()
        for item, a in zip(retry, ok2):
            base = item[1].split("@")[0]
            if a and base not in seen:
                seen.add(base)
                bases.append(item)
    R.counters["shipped_files"] = R.counters.get("accepted:shipped", 0)
    R.counters["harvested_snippets"] = R.counters.get("accepted:harvest", 0)
    t1 = time.time()
    _progress(f"seeds done: {R.accepted} accepted", t0)

    # ---- 2. generated modules
    sys_mods = gen_sys.systematic()[:: cfg["sys_every"]]
    gen_inputs = [(s, "sys:" + sorted(t)[0], t) for s, t in sys_mods]
    for i in range(cfg["n_random"]):
        g = gen.G(common.Rng(seed, 1_000_000 + i), size=2 + (i % 3 == 0) + (i % 7 == 0))
        src, tags = g.module()
        gen_inputs.append((src, f"gen:{seed}:{i}", tags))
    okg = R.evaluate(gen_inputs)
    gen_bases = [s for s, a in zip(gen_inputs, okg) if a]
    R.counters["generated_modules"] = len(gen_bases)
    n_rand_ok = R.counters.get("accepted:gen", 0)
    R.counters["generated_random_rejected"] = R.counters.get("rejected:gen", 0)
    R.counters["generated_systematic_rejected"] = R.counters.get("rejected:sys", 0)
    t2 = time.time()
    _progress(f"generated done: {R.accepted} accepted", t0)

    # ---- 3. comment insertion
    variants = []
    for src, origin, _ in bases:
        rng = R.rng()
        for _ in range(cfg["seed_comment"]):
            v = comments.variant(src, rng, density=rng.pick([1, 2, 3, 5, 8, 13]))
            if v:
                variants.append((v[0], "comment:" + "+".join(sorted(v[1])) + "<" + origin, None))
        if cfg["seed_dense"] and len(src) < 6000:
            for text, c in comments.dense_variants(src):
                variants.append((text, "comment:" + "+".join(c) + "<" + origin, None))
    for j, (src, origin, _) in enumerate(gen_bases):
        if j % cfg["gen_comment_every"]:
            continue
        rng = R.rng()
        v = comments.variant(src, rng, density=rng.pick([1, 2, 3, 5, 8]))
        if v:
            variants.append((v[0], "comment:" + "+".join(sorted(v[1])) + "<" + origin, None))
        if origin.startswith("sys:") and j % (cfg["gen_comment_every"] * 4) == 0:
            for text, c in comments.dense_variants(src)[:3]:
                variants.append((text, "comment:" + "+".join(c) + "<" + origin, None))
    R.evaluate(variants)
    R.counters["comment_variants"] = R.counters.get("accepted:comment", 0)
    t3 = time.time()
    _progress(f"comment variants done: {R.accepted} accepted", t0)

    # ---- 4. mutation / layout
    muts = []
    for src, origin, _ in bases:
        rng = R.rng()
        for text, name in mutate.mutants(src, rng, cfg["seed_mut"] * 2):
            muts.append((text, ("layout:" if name.startswith("layout") else "mutant:") + name + "<" + origin, None))
        for text, name in mutate.text_mutations(src, rng):
            muts.append((text, "layout:" + name + "<" + origin, None))
    for j, (src, origin, _) in enumerate(gen_bases):
        if j % cfg["gen_mut_every"]:
            continue
        rng = R.rng()
        for text, name in mutate.mutants(src, rng, cfg.get("gen_mut_n", 2)):
            muts.append((text, ("layout:" if name.startswith("layout") else "mutant:") + name + "<" + origin, None))
        if j % (cfg["gen_mut_every"] * 3) == 0:
            t = rng.pick(mutate.text_mutations(src, rng))
            muts.append((t[0], "layout:" + t[1] + "<" + origin, None))
    R.evaluate(muts)
    R.counters["layout_variants"] = R.counters.get("accepted:layout", 0)
    R.counters["mutation_variants"] = R.counters.get("accepted:mutant", 0)
    t4 = time.time()
    _progress(f"mutants done: {R.accepted} accepted, {len(R.failing)} failing inputs to triage", t0)

    # ---- 5. triage: isolate, minimise, classify
    violations, vcounts = triage_failures(R)
    t5 = time.time()

    gen_tags_ok = {t for t in R.tag_ok if not t.startswith("sys:")}
    gen_tags_never = sorted(t for t in R.tag_bad if not t.startswith("sys:") and t not in R.tag_ok)
    n_rand = cfg["n_random"]
    R.counters["accepted_inputs"] = R.accepted
    R.counters["constructs_covered"] = len(R.tag_ok)
    R.counters["grammar_productions_covered"] = len(gen_tags_ok)
    R.counters["grammar_productions_never_accepted"] = len(gen_tags_never)
    R.counters["generated_random_reject_permille"] = int(1000 * R.counters["generated_random_rejected"] / max(1, n_rand))
    R.counters["failing_inputs"] = len(R.failing)
    for k, v in R.norm.items():
        R.counters["normalised:" + k] = v
    for k, v in drv.STATS.items():
        R.counters["drv:" + k] = round(v, 1) if isinstance(v, float) else v
    R.counters["seconds_seeds"] = round(t1 - t0, 1)
    R.counters["seconds_generated"] = round(t2 - t1, 1)
    R.counters["seconds_comments"] = round(t3 - t2, 1)
    R.counters["seconds_mutation"] = round(t4 - t3, 1)
    R.counters["seconds_triage"] = round(t5 - t4, 1)
    if gen_tags_never:
        R.inconclusive["generator-production-never-accepted"] = len(gen_tags_never)
    if R.counters["generated_random_reject_permille"] >= 200:
        R.inconclusive["generator-reject-rate>=20%"] = 1
    return {
        "evaluations": R.accepted,
        "distinct": len(R.distinct),
        "samples": R.samples,
        "violations": violations,
        "violation_counts": vcounts,
        "inconclusive": R.inconclusive,
        "counters": R.counters,
        "coverage_extra": {"grammar_productions_never_accepted": gen_tags_never[:50], "random_modules_accepted": n_rand_ok},
    }


def _clip(s, n=6000):
    return s if len(s) <= n else s[:n] + f"\n... [{len(s) - n} more characters]"


def triage_failures(R):
    """-> (violations [(key, witness)], counts {key: n})"""
    # isolation: a failing multi-definition input is replaced by its failing definitions
    work = []  # (src, target, origin, original_src, detail)
    pieces_req = []
    for idx, (src, origin, fails) in enumerate(R.failing):
        toks = lex.tokens(src)
        chunks = lex.split_definitions(toks)
        if len(chunks) > 1 and not any(k == "crash" for k, _, _ in fails):
            for a, b in chunks:
                pieces_req.append((idx, lex.render(toks[a:b], indent=True)))
    piece_res = drv.fmt_many([p for _, p in pieces_req], keep_text=False) if pieces_req else []
    need = [i for i, r in enumerate(piece_res) if judge.needs_trees(r)]
    if need:
        r2 = drv.fmt_many([pieces_req[i][1] for i in need], trees=True)
        for i, r in zip(need, r2):
            piece_res[i] = r
    by_input = {}
    for (idx, psrc), r in zip(pieces_req, piece_res):
        if (r.clean and "///" not in psrc) or r.rejected:
            continue
        f, _ = judge.judge(r.data(), psrc)
        for k, sig, det in f:
            by_input.setdefault(idx, []).append((psrc, (k, sig), det))
    for idx, (src, origin, fails) in enumerate(R.failing):
        covered = set()
        for psrc, target, det in by_input.get(idx, []):
            work.append((psrc, target, origin, src, det))
            covered.add(target[0])
            R.count("isolated_definitions")
        for k, sig, det in fails:
            if k not in covered:
                work.append((src, (k, sig), origin, src, det))
    # deduplicate identical (text, target) pairs: minimise once, count all
    uniq = {}
    for w in work:
        uniq.setdefault((w[0], w[1]), []).append(w)
    keys = sorted(uniq, key=lambda k: len(k[0]))
    todo = [k for k in keys if k[1][0] != "crash" or k[1][1][0] == "panic"]
    skipped = []
    if len(todo) > R.cfg["max_min"]:
        skipped = todo[R.cfg["max_min"]:]
        todo = todo[: R.cfg["max_min"]]
    ms = triage.minimise_all([(s, t) for s, t in todo])
    R.count("minimisations", len(ms))
    R.count("minimisation_tests", sum(m.tests for m in ms))
    violations = []
    counts = {}
    shown = {}

    def book(key, n, witness):
        counts[key] = counts.get(key, 0) + n
        if shown.get(key, 0) < 3:
            shown[key] = shown.get(key, 0) + 1
            violations.append((key, witness))

    for k, m in zip(todo, ms):
        ws = uniq[k]
        kind, sig = k[1]
        if not m.verified:
            # the re-rendered text no longer shows the failure (layout dependent): keep the input as it is
            canon = triage.canonical(lex.tokens(k[0]))[:80] if len(k[0]) < 400 else "layout-dependent"
            cls = classes.classify(kind, triage.canonical(lex.tokens(k[0])), sig) if len(k[0]) < 400 else "layout-dependent:unminimised"
            minimal = k[0]
        else:
            canon = triage.canonical(m.toks)
            cls = classes.classify(kind, canon, sig)
            minimal = m.src
        mr = drv.fmt_many([minimal], trees=False, keep_text=True)[0]
        key = f"C13|{kind}|{cls}" if kind != "crash" else f"C13|crash|{sig[1][:60]}|{cls}"
        w0 = ws[0]
        book(key, len(ws), {
            "source": _clip(w0[3]), "origin": w0[2], "isolated_definition": _clip(w0[0]) if w0[0] != w0[3] else None,
            "minimal_source": minimal, "minimal_formatted": mr.get("fmt"), "minimal_formatted_twice": mr.get("fmt2"), "parse2_detail": mr.get("parse2_detail"),
            "signature": list(sig), "detail": {a: (_clip(b, 1500) if isinstance(b, str) else b) for a, b in w0[4].items()}, "minimisation_tests": m.tests,
        })
    for k in skipped:
        R.inconclusive["failure-not-minimised(budget)"] = R.inconclusive.get("failure-not-minimised(budget)", 0) + len(uniq[k])
    for k in keys:
        if k[1][0] == "crash" and k[1][1][0] != "panic":
            ws = uniq[k]
            book(f"C13|crash|{'-'.join(str(x) for x in k[1][1])}|unminimised", len(ws), {"source": _clip(ws[0][3]), "origin": ws[0][2]})
    return violations, counts


def main(argv):
    import argparse

    ap = argparse.ArgumentParser()
    ap.add_argument("--tier", default="quick")
    ap.add_argument("--seed", type=int, default=0)
    ap.add_argument("--json", action="store_true")
    ap.add_argument("--show", type=int, default=1, help="witnesses printed per key")
    a = ap.parse_args(argv)
    t0 = time.time()
    r = run(a.tier, a.seed)
    wall = time.time() - t0
    if a.json:
        print(json.dumps(r, indent=1, default=str))
        return
    c = r["counters"]
    print(f"C13 tier={a.tier} seed={a.seed} wall={wall:.1f}s accepted_inputs={r['evaluations']} distinct={r['distinct']}")
    for k in ("shipped_files", "harvested_snippets", "generated_modules", "comment_variants", "layout_variants", "mutation_variants", "constructs_covered", "grammar_productions_covered",
              "grammar_productions_never_accepted", "generated_random_reject_permille", "generated_systematic_rejected", "failing_inputs", "isolated_definitions", "minimisations", "minimisation_tests"):
        print(f"  {k:40s} {c.get(k, 0)}")
    for k in sorted(c):
        if k.startswith(("normalised:", "seconds_", "rejected:", "accepted:")):
            print(f"  {k:40s} {c[k]}")
    print("  inconclusive:", r["inconclusive"])
    if r["coverage_extra"]["grammar_productions_never_accepted"]:
        print("  never accepted:", r["coverage_extra"]["grammar_productions_never_accepted"])
    print(f"violation keys: {len(r['violation_counts'])}")
    shown = {}
    for key, n in sorted(r["violation_counts"].items(), key=lambda kv: (-kv[1], kv[0])):
        print(f"  {n:7d}  {key}")
    for key, w in r["violations"]:
        if shown.get(key, 0) >= a.show:
            continue
        shown[key] = shown.get(key, 0) + 1
        print(f"--- {key}\n    origin: {w.get('origin')}\n    minimal: {json.dumps(w.get('minimal_source'))}\n    formatted: {json.dumps(w.get('minimal_formatted'))}")
        if w.get("minimal_formatted_twice"):
            print(f"    formatted twice: {json.dumps(w.get('minimal_formatted_twice'))}")
        if w.get("parse2_detail"):
            print(f"    parse error: {w['parse2_detail'][:160]}")
        d = w.get("detail") or {}
        if "before" in d and isinstance(d["before"], str):
            print(f"    tree: {d.get('path', '')[-70:]}: {d['before'][:110]}  =>  {d['after'][:110]}")
        elif "before" in d:
            print(f"    comments before: {d['before'][:12]}\n    comments after:  {d['after'][:12]}")


if __name__ == "__main__":
    main(sys.argv[1:])
