"""Minimisation (delta debugging on the token list) and classification of failing inputs.

`minimise_all(items)` runs all minimisations in lock-step: every round collects the next
candidate batch of every active minimisation and sends them to the driver together.
A candidate "holds" when it still parses (parse1 ok) and judge() still reports a failure of
the same kind with the same signature.  The minimal token list is then canonicalised
(identifiers -> a, b, ... where the failure persists) and named by `classify`.
"""
import re

from . import drv, judge, lex

WAVE = 24


def holds(r, src, target):
    if r is None:
        return False
    kind, sig = target
    if kind == "crash":
        f, _ = judge.judge(r, src)
        return any(k == kind and s[:1] == sig[:1] for k, s, _ in f)
    # cheap exits on the raw answer, before anything is decoded
    if not r.parsed:
        return False
    if kind == "output-does-not-parse":
        if not r.has(b'"parse2":"err"'):
            return False
    elif not r.has(b'"parse2":"ok"'):
        return False
    elif kind == "ast-changed":
        if r.has(b'"ast_eq":true') and r.has(b'"imports_eq":true'):
            return False
    elif kind == "not-idempotent":
        return r.has(b'"idempotent":false')
    elif kind == "comments-lost-or-reordered" and r.has(b'"comments_eq":true') and sig[0] != "doc-comment-moved":
        return False
    d = r.data()
    if kind != "ast-changed" and "tree1" in d:
        d = {k: v for k, v in d.items() if k not in ("tree1", "tree2")}
    f, _ = judge.judge(d, src)
    return any(k == kind and s == sig for k, s, _ in f)


def _render(toks):
    return lex.render(toks, indent=True)


SIMPLE = {"name": "a", "up": "A", "int": "1", "str": '@""', "bytes": '""', "discard": "_"}
KEEP_UP = {"True", "False", "Pair", "Void", "Some", "None"}


def _stage_lines(toks):
    """delete runs of whole lines: halves, quarters, ... single lines (ddmin granularity)"""
    n = len(toks)
    starts = [i for i, t in enumerate(toks) if t[2] > 0 or i == 0]
    L = len(starts)
    bounds = starts + [n]
    size = max(L // 2, 1)
    while size >= 1:
        for k in range(0, L, size):
            a, b = bounds[k], bounds[min(k + size, L)]
            if b - a < n:
                yield (a, b, ())
        if size == 1:
            break
        size //= 2


def _stage_groups(toks):
    pairs = lex.match_brackets(toks)
    order = sorted(pairs.items(), key=lambda ij: ij[0] - ij[1])  # largest first
    for i, j in order:
        yield (i, j + 1, ())  # whole group
        k = i
        while k > 0 and (toks[k - 1][0] in ("name", "up") or toks[k - 1][1] == ".") and i - k < 6:
            k -= 1
        if k < i:
            yield (k, j + 1, ())  # callee + group
            yield (k, j + 1, (("name", "a", toks[k][2]),))  # -> atom
        yield (i, j + 1, (("name", "a", toks[i][2]),))
        if j > i + 1:
            yield (i + 1, j, ())  # empty the group
            depth = 0
            cuts = [i]
            for m in range(i + 1, j):
                if toks[m][0] == "open":
                    depth += 1
                elif toks[m][0] == "close":
                    depth -= 1
                elif depth == 0 and toks[m][1] == ",":
                    cuts.append(m)
            cuts.append(j)
            if len(cuts) > 2:
                for a, b in zip(cuts, cuts[1:]):
                    if a > i:
                        yield (a, b, ())  # drop this element (and the comma before it)
                    else:
                        yield (i + 1, b + (1 if b < j else 0), ())  # drop the first element
                for a, b in zip(cuts, cuts[1:]):
                    yield (i + 1, j, tuple(toks[a + 1: b]))  # only this element
    for i, j in order:
        yield ("unwrap", i, j)


def _stage_windows(toks):
    n = len(toks)
    for w in ((8, 4, 2, 1) if n > 40 else (2, 1)):
        if w >= n:
            continue
        for i in range(0, n - w + 1):
            yield (i, i + w, ())


WRAP_HEAD = [("kw", "fn", 0), ("name", "a", 0), ("open", "(", 0), ("close", ")", 0), ("open", "{", 0)]
WRAP_TAIL = [("close", "}", 0)]


def _stage_hoist(toks):
    """one-shot: a sub-expression (bracket group with its callee, or a run of lines) put
    alone into `fn a() { .. }`, smallest first: jumps straight to the faulty construct"""
    n = len(toks)
    if n < 14:
        return
    pairs = lex.match_brackets(toks)
    spans = set()
    for i, j in pairs.items():
        spans.add((i, j + 1))
        if j > i + 1:
            spans.add((i + 1, j))
        k = i
        while k > 0 and (toks[k - 1][0] in ("name", "up") or toks[k - 1][1] in (".", "-", "!")) and i - k < 6:
            k -= 1
            spans.add((k, j + 1))
        # the group with what follows it on the same chain: `( .. ) ( .. )`, `( .. ) . x`
        e = j + 1
        while e < n and (toks[e][1] in (".", "?") or toks[e][0] in ("ord",) or (toks[e][0] in ("name", "up") and toks[e - 1][1] == ".") or (toks[e][1] == "(" and e in pairs and toks[e][2] == 0)):
            e = pairs[e] + 1 if toks[e][1] == "(" else e + 1
            spans.add((i, e))
            if k < i:
                spans.add((k, e))
    starts = [i for i, t in enumerate(toks) if t[2] > 0] + [n]
    for a, b in zip(starts, starts[1:]):
        spans.add((a, b))
    for a, b in sorted(spans, key=lambda ab: (ab[1] - ab[0], ab[0])):
        if 0 < b - a < n - 6:
            body = list(toks[a:b])
            body[0] = (body[0][0], body[0][1], 0)
            yield ("set", tuple(WRAP_HEAD + body + WRAP_TAIL))


def _stage_canon(toks):
    """one-shot: identifiers renamed in order of appearance (the same construct found in
    different inputs then asks the driver the very same questions: cache hits)"""
    names, ups = {}, {}
    out = []
    for k, t, nl in toks:
        if k == "name":
            t = names.setdefault(t, "abcdefghijklmnopqrstuvwxyz"[len(names) % 26])
        elif k == "up" and t not in KEEP_UP:
            t = ups.setdefault(t, "ABCDEFGHIJKLMNOPQRSTUVWXYZ"[len(ups) % 26])
        out.append((k, t, nl))
    full = [(k, SIMPLE[k] if k in ("int", "str") and False else t, nl) for k, t, nl in out]
    yield ("set", tuple(full))


def _stage_simplify(toks):
    for i, (k, t, nl) in enumerate(toks):
        c = SIMPLE.get(k)
        if c and t != c and not (k == "up" and t in KEEP_UP) and not (k in ("name", "up") and len(t) == 1):
            yield (i, i + 1, ((k, c, nl),))
        if nl > 1:
            yield (i, i + 1, ((k, t, 1),))


STAGES = [_stage_lines, _stage_groups, _stage_windows, _stage_simplify]


def _apply(toks, d):
    if d[0] == "set":
        return list(d[1])
    if d[0] == "unwrap":
        _, i, j = d
        return toks[:i] + toks[i + 1: j] + toks[j + 1:]
    a, b, repl = d
    return toks[:a] + list(repl) + toks[b:]


class Minimiser:
    """Greedy staged delta debugging; stages are cycled until one full cycle brings no
    progress.  After a success the same stage is restarted (not the whole cycle)."""

    def __init__(self, src, target, max_tests=4000):
        self.target = target
        self.toks = lex.tokens(src)
        self.src = _render(self.toks)
        self.done = False
        self.rounds = 0
        self.tests = 0
        self.max_tests = max_tests
        self.verified = None  # the re-rendered original still fails?
        self._phase = "verify"
        self._chunks_ok = True
        self._stage = 0
        self._gen = None
        self._idle_stages = 0  # consecutive stages finished without progress
        self._wave = None
        self._combo = None
        self._wave_d = []
        self._pre = [_stage_hoist, _stage_canon]
        self._in_pre = False
        self._pending_advance = False
        self._in_chunks = False
        self.budget_exhausted = False

    def _chunk_candidates(self):
        """definition level first: one definition alone, then all but one"""
        chunks = lex.split_definitions(self.toks)
        if len(chunks) <= 1:
            return None
        cands = [(0, a, ()) if False else ("keep", a, b) for a, b in chunks]
        if len(chunks) > 2:
            cands += [(a, b, ()) for a, b in chunks]
        return iter(cands)

    def _next_gen(self):
        if self._chunks_ok:
            g = self._chunk_candidates()
            if g is not None:
                self._in_chunks = True
                return g
            self._chunks_ok = False
        self._in_chunks = False
        if self._pre:
            self._in_pre = True
            return self._pre.pop(0)(self.toks)
        self._in_pre = False
        return STAGES[self._stage](self.toks)

    def next_batch(self, wave=WAVE):
        if self._phase == "verify":
            return [self.src]
        out = []
        if self._combo is not None:
            # several independent reductions held in the last wave: try them all at once
            self._wave = [self._combo[0]]
            self._wave_d = [None]
            return [_render(self._combo[0])]
        self._wave = []
        self._wave_d = []
        seen = set()
        if self._idle_stages >= len(STAGES):
            self.done = True
            return out
        while len(out) < wave:
            if self._gen is None:
                self._gen = self._next_gen()
            d = next(self._gen, None)
            if d is None:
                # stage exhausted without progress
                self._gen = None
                if self._in_chunks:
                    self._chunks_ok = False
                    continue
                if self._in_pre:
                    if out:
                        break
                    continue
                self._pending_advance = True
                if out:
                    break  # test what we have before moving on to the next stage
                self._advance()
                if self._idle_stages >= len(STAGES):
                    break
                continue
            c = self.toks[d[1]: d[2]] if d[0] == "keep" else _apply(self.toks, d)
            if not c or len(c) == len(self.toks) and c == self.toks:
                continue
            text = _render(c)
            if text in seen:
                continue
            seen.add(text)
            self._wave.append(c)
            self._wave_d.append(d)
            out.append(text)
        if not out:
            self.done = True
        return out

    def _adopt(self, c):
        self.toks = c
        self.src = _render(c)
        self._gen = None
        self._idle_stages = 0
        self._pending_advance = False  # progress: run the same stage again
        self.rounds += 1

    def _advance(self):
        self._pending_advance = False
        self._idle_stages += 1
        self._stage = (self._stage + 1) % len(STAGES)

    def feed(self, results):
        self.tests += len(results)
        if self._phase == "verify":
            self.verified = holds(results[0], self.src, self.target)
            self._phase = "min"
            if not self.verified:
                self.done = True
            return
        if self._combo is not None:
            combo, first = self._combo
            self._combo = None
            chosen = combo if holds(results[0], _render(combo), self.target) else first
            self._adopt(chosen)
            return
        good = [(c, d) for (c, d), r in zip(zip(self._wave, self._wave_d), results) if holds(r, _render(c), self.target)]
        if good:
            first = good[0][0]
            # combine reductions that touch disjoint token ranges
            picked = []
            for c, d in good:
                if d is None or d[0] in ("set", "keep", "unwrap"):
                    continue
                a, b = d[0], d[1]
                if all(b <= pa or a >= pb for pa, pb, _ in picked):
                    picked.append((a, b, d[2]))
            if len(picked) > 1 and good[0][1] is not None and good[0][1][0] not in ("set", "keep", "unwrap"):
                toks = self.toks
                for a, b, repl in sorted(picked, reverse=True):
                    toks = toks[:a] + list(repl) + toks[b:]
                self._combo = (toks, first)
            else:
                self._adopt(first)
        elif self._pending_advance:
            self._advance()
        if self.tests >= self.max_tests:
            self.done = True
            self.budget_exhausted = True


def minimise_all(items, timeout=20.0):
    """items: [(src, (kind, sig))] -> [Minimiser] (same order)"""
    ms = [Minimiser(s, t) for s, t in items]
    active = list(ms)
    while active:
        wave = max(WAVE, min(512, 1024 // len(active)))
        batches = [m.next_batch(wave) for m in active]
        flat = [s for b in batches for s in b]
        owner = [m for m, b in zip(active, batches) for _ in b]
        res = drv.fmt_many(flat, trees=[m.target[0] == "ast-changed" for m in owner], keep_text=False, timeout=timeout)
        pos = 0
        for m, b in zip(active, batches):
            if b:
                m.feed(res[pos: pos + len(b)])
            pos += len(b)
        active = [m for m in active if not m.done]
    return ms


# ------------------------------------------------------------------ classification


def canonical(toks):
    """one-line text of the minimal input: identifiers renamed in order of appearance,
    comment texts abstracted, `↵` where a line break is significant (before `(`, `-`, `|>`)"""
    names = {}
    ups = {}
    out = []
    for k, t, nl in toks:
        if k == "name":
            t = names.setdefault(t, "abcdefghijklmnopqrstuvwxyz"[len(names) % 26])
        elif k == "up" and t not in KEEP_UP:
            t = ups.setdefault(t, "ABCDEFGHIJKLMNOPQRSTUVWXYZ"[len(ups) % 26])
        elif k == "c2":
            t = "// c" if re.match(r"// c\d+\s*$", t) else "// …"
        elif k == "c3":
            t = "/// doc" if re.match(r"/// doc\d+\s*$", t) else "/// …"
        elif k == "c4":
            t = "//// m" if re.match(r"//// m\d+\s*$", t) else "//// …"
        if nl > 0 and t in lex.NL_SENSITIVE:
            t = "↵" + t
        if k == "eof":
            t = "⏎⏎"
        out.append(t)
    s = " ".join(out)
    s = re.sub(r"\s*([()\[\],.])\s*", r"\1", s)
    s = s.replace(",", ", ")
    return s


