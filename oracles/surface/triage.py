"""Minimisation (delta debugging on the token list) and classification of failing inputs.

`minimise_all(items)` runs all minimisations in lock-step: every round collects the next
candidate batch of every active minimisation and sends them to the driver together.
A candidate "holds" when it still parses (parse1 ok) and judge() still reports a failure of
the same kind with the same signature.  The minimal token list is then canonicalised
(identifiers -> a, b, ... where the failure persists) and named by `classify`.
"""
import re

from . import drv, judge, lex

WAVE = 24


def holds(r, src, target):
    if r is None:
        return False
    kind, sig = target
    if kind == "crash":
        f, _ = judge.judge(r, src)
        return any(k == kind and s[:1] == sig[:1] for k, s, _ in f)
    if r.get("parse1") != "ok":
        return False
    # cheap exits before any tree is parsed
    if kind == "output-does-not-parse":
        if r.get("parse2") == "ok":
            return False
    elif r.get("parse2") != "ok":
        return False
    elif kind == "ast-changed" and r.get("ast_eq", True) and r.get("imports_eq", True):
        return False
    elif kind == "not-idempotent":
        return not r.get("idempotent", True)
    elif kind == "comments-lost-or-reordered" and r.get("comments_eq", True):
        return False
    if kind != "ast-changed" and "tree1" in r:
        r = {k: v for k, v in r.items() if k not in ("tree1", "tree2")}
    f, _ = judge.judge(r, src)
    return any(k == kind and s == sig for k, s, _ in f)


def _render(toks):
    return lex.render(toks, indent=True)


SIMPLE = {"name": "a", "up": "A", "int": "1", "str": '@""', "bytes": '""', "discard": "_"}
KEEP_UP = {"True", "False", "Pair", "Void", "Some", "None"}


def _candidates(toks):
    """token lists, most aggressive first"""
    n = len(toks)
    pairs = lex.match_brackets(toks)
    cands = []
    # statement / line groups
    starts = [i for i, t in enumerate(toks) if t[2] > 0] + [n]
    prev = 0
    for s in starts:
        if s > prev:
            cands.append(toks[:prev] + toks[s:])
        prev = s
    for i, j in pairs.items():
        cands.append(toks[:i] + toks[j + 1:])  # whole group
        k = i
        while k > 0 and (toks[k - 1][0] in ("name", "up") or toks[k - 1][1] == ".") and i - k < 6:
            k -= 1
        if k < i:
            cands.append(toks[:k] + toks[j + 1:])  # callee + group
            cands.append(toks[:k] + [("name", "a", toks[k][2])] + toks[j + 1:])  # -> atom
        cands.append(toks[:i] + [("name", "a", toks[i][2])] + toks[j + 1:])
        cands.append(toks[:i] + toks[i + 1: j] + toks[j + 1:])  # unwrap
        if j > i + 1:
            cands.append(toks[: i + 1] + toks[j:])  # empty the group
            # keep only one comma-separated element
            depth = 0
            cuts = [i]
            for m in range(i + 1, j):
                if toks[m][0] == "open":
                    depth += 1
                elif toks[m][0] == "close":
                    depth -= 1
                elif depth == 0 and toks[m][1] == ",":
                    cuts.append(m)
            cuts.append(j)
            if len(cuts) > 2:
                for a, b in zip(cuts, cuts[1:]):
                    cands.append(toks[: i + 1] + toks[a + 1: b] + toks[j:])  # only this element
                    if a > i:
                        cands.append(toks[:a] + toks[b:])  # drop this element (and the comma before it)
                    else:
                        cands.append(toks[: i + 1] + toks[b + (1 if b < j else 0):])  # drop the first element
    for w in (4, 3, 2, 1):
        for i in range(0, n - w + 1):
            cands.append(toks[:i] + toks[i + w:])
    # simplifications that do not shrink (each token at most once: only if not yet canonical)
    for i, (k, t, nl) in enumerate(toks):
        c = SIMPLE.get(k)
        if c and t != c and not (k == "up" and t in KEEP_UP) and not (k == "name" and len(t) == 1) and not (k == "up" and len(t) == 1):
            cands.append(toks[:i] + [(k, c, nl)] + toks[i + 1:])
        if nl > 1:
            cands.append(toks[:i] + [(k, t, 1)] + toks[i + 1:])
    seen = set()
    out = []
    base = tuple(toks)
    for c in cands:
        key = tuple(c)
        if key in seen or key == base or not c:
            continue
        seen.add(key)
        out.append(c)
    out.sort(key=lambda c: (len(c), sum(len(t[1]) for t in c)))
    return out


class Minimiser:
    def __init__(self, src, target, max_rounds=400):
        self.target = target
        self.toks = lex.tokens(src)
        self.src = _render(self.toks)
        self.done = False
        self.rounds = 0
        self.max_rounds = max_rounds
        self.tests = 0
        self.verified = None  # the re-rendered original still fails?
        self._queue = None
        self._wave = None
        self._phase = "verify"

    def next_batch(self):
        if self._phase == "verify":
            return [self.src]
        if self._queue is None:
            self._queue = _candidates(self.toks)
        self._wave = self._queue[:WAVE]
        self._queue = self._queue[WAVE:]
        return [_render(c) for c in self._wave]

    def feed(self, results):
        self.tests += len(results)
        if self._phase == "verify":
            self.verified = holds(results[0], self.src, self.target)
            self._phase = "min"
            if not self.verified:
                self.done = True
            return
        for c, r in zip(self._wave, results):
            if holds(r, _render(c), self.target):
                self.toks = c
                self.src = _render(c)
                self._queue = None
                self.rounds += 1
                if self.rounds >= self.max_rounds:
                    self.done = True
                return
        if not self._queue:
            self.done = True


def minimise_all(items, timeout=20.0):
    """items: [(src, (kind, sig))] -> [Minimiser] (same order)"""
    ms = [Minimiser(s, t) for s, t in items]
    active = list(ms)
    while active:
        batches = [m.next_batch() for m in active]
        flat = [s for b in batches for s in b]
        res = drv.fmt_many(flat, trees=False, timeout=timeout)
        # full trees only where the verdict depends on them
        want = [i for i, (m, r) in enumerate(zip([m for m, b in zip(active, batches) for _ in b], res)) if m.target[0] == "ast-changed" and judge.needs_trees(r)]
        if want:
            r2 = drv.fmt_many([flat[i] for i in want], trees=True, timeout=timeout)
            for i, r in zip(want, r2):
                res[i] = r
        pos = 0
        for m, b in zip(active, batches):
            m.feed(res[pos: pos + len(b)])
            pos += len(b)
        active = [m for m in active if not m.done]
    return ms


# ------------------------------------------------------------------ classification


def canonical(toks):
    """one-line text of the minimal input with identifiers renamed in order of appearance"""
    names = {}
    ups = {}
    out = []
    for k, t, _ in toks:
        if k == "name":
            t = names.setdefault(t, "abcdefghijklmnopqrstuvwxyz"[len(names) % 26])
        elif k == "up" and t not in KEEP_UP:
            t = ups.setdefault(t, "ABCDEFGHIJKLMNOPQRSTUVWXYZ"[len(ups) % 26])
        out.append(t)
    s = " ".join(out)
    s = re.sub(r"\s*([()\[\],.])\s*", r"\1", s)
    s = s.replace(",", ", ")
    return s


# (class name, kinds or None, regex on the canonical minimal source, optional predicate on the fmt text)
RULES = []


def rule(name, kinds, pattern, fmt_pattern=None):
    RULES.append((name, kinds, re.compile(pattern), re.compile(fmt_pattern) if fmt_pattern else None))


def classify(kind, sig, canon, fmt):
    for name, kinds, pat, fpat in RULES:
        if kinds and kind not in kinds:
            continue
        if pat.search(canon) and (fpat is None or fpat.search(fmt or "")):
            return name
    return "unclassified:" + canon[:70]
