"""Structure-preserving mutation of parseable modules, all on the token list of lex.py:
literal replacement, wrapping / unwrapping one pair of parentheses, operator swaps within
an arity/precedence family, trailing commas, and pure layout changes (one line, one token
per line, CRLF, trailing white space, blank lines).  Every mutant goes back through the
real parser; only accepted ones count.  -> (text, mutation name)
"""
from . import lex

INTS = ["0", "1", "42", "1_000", "1_000_000", "0xff", "0xFF", "0x0", "10_0", "123456789012345678901234567890", "007"]
STRS = ['@""', '@"x"', '@"a\\nb"', '@"\\"q\\""', '@"é日本"', '@"// no"']
BYTES = ['""', '"x"', '"a\\"b"', '"é"', '"foo bar"']
ARITH = ["+", "-", "*", "/", "%"]
CMP = ["==", "!=", "<", "<=", ">", ">="]
LOGIC = ["&&", "||"]


def _fix_nl(toks):
    return toks


def literal(toks, rng):
    idx = [i for i, t in enumerate(toks) if t[0] in ("int", "str", "bytes")]
    if not idx:
        return None
    out = list(toks)
    for i in [rng.pick(idx) for _ in range(rng.range(1, 3))]:
        k, t, nl = out[i]
        if k == "int":
            if i > 0 and out[i - 1][1] in ("[", ",") and any(x[1] == "#" for x in out[max(0, i - 40): i]):
                new = str(rng.below(256))
            else:
                new = rng.pick(INTS)
        elif k == "str":
            new = rng.pick(STRS)
        else:
            if i > 0 and out[i - 1][1] in ("#", ">"):
                new = '"' + "".join(rng.pick("0123456789abcdefABCDEF") for _ in range(2 * rng.range(0, 4))) + '"'
            else:
                new = rng.pick(BYTES)
        out[i] = (k, new, nl)
    return out, "literal"


def wrap_paren(toks, rng):
    idx = [i for i, t in enumerate(toks) if t[0] in ("name", "int", "str", "up") and (i == 0 or toks[i - 1][1] not in (".", "@", "#", "fn", "as", "use", "type", "const", "test", "bench", "validator", "/", "via", "..", "let", "expect", "|", "pub", "opaque"))
           and (i + 1 >= len(toks) or toks[i + 1][1] not in (":", "(", "{", ".", "->", "=", "<-", "as", "via", "<"))]
    if not idx:
        return None
    i = rng.pick(idx)
    k, t, nl = toks[i]
    brace = rng.chance(1, 5)
    o, c = ("{", "}") if brace else ("(", ")")
    return toks[:i] + [("open", o, nl), (k, t, 0), ("close", c, 0)] + toks[i + 1:], "wrap-brace" if brace else "wrap-paren"


def unwrap_paren(toks, rng):
    pairs = lex.match_brackets(toks)
    idx = []
    for i, j in pairs.items():
        if toks[i][1] != "(" or j == i + 1:
            continue
        if i > 0 and (toks[i - 1][0] in ("name", "up", "close", "discard") or toks[i - 1][1] in ("fn", "else", "?")):
            continue
        depth = 0
        ok = True
        for m in range(i + 1, j):
            if toks[m][0] == "open":
                depth += 1
            elif toks[m][0] == "close":
                depth -= 1
            elif depth == 0 and toks[m][1] == ",":
                ok = False
                break
        if ok:
            idx.append((i, j))
    if not idx:
        return None
    i, j = rng.pick(idx)
    inner = list(toks[i + 1: j])
    inner[0] = (inner[0][0], inner[0][1], toks[i][2])
    return toks[:i] + inner + toks[j + 1:], "unwrap-paren"


def swap_op(toks, rng):
    idx = [i for i, t in enumerate(toks) if t[0] == "op" and (t[1] in ARITH or t[1] in CMP or t[1] in LOGIC) and 0 < i < len(toks) - 1
           and toks[i - 1][0] in ("name", "int", "close", "up", "str", "bytes", "ord") and toks[i + 1][1] not in (",", ")", ">")]
    if not idx:
        return None
    out = list(toks)
    for i in [rng.pick(idx) for _ in range(rng.range(1, 2))]:
        k, t, nl = out[i]
        if toks[i - 1][0] == "up" and t in ("<", ">"):
            continue
        fam = ARITH if t in ARITH else CMP if t in CMP else LOGIC
        if rng.chance(1, 4):
            fam = ARITH + CMP + LOGIC  # across precedence levels: parentheses must appear / disappear correctly
        out[i] = (k, rng.pick([o for o in fam if o != t]), nl)
    return out, "swap-op"


def trailing_commas(toks, rng, add=True):
    out = []
    n = 0
    pairs = lex.match_brackets(toks)
    closes = {j: i for i, j in pairs.items()}
    for i, (k, t, nl) in enumerate(toks):
        if k == "close" and i in closes and out:
            prev = out[-1]
            o = closes[i]
            has_comma = any(toks[m][1] == "," for m in range(o + 1, i))
            if add and prev[1] != "," and prev[0] != "open" and has_comma and not lex.is_comment(prev) and rng.chance(2, 3):
                out.append(("op", ",", 0))
                n += 1
            elif not add and prev[1] == "," and rng.chance(2, 3):
                out.pop()
                n += 1
        out.append((k, t, nl))
    if not n:
        return None
    return out, "trailing-commas-added" if add else "trailing-commas-removed"


def one_line(toks, rng=None):
    """every line break that is not significant becomes a space"""
    out = []
    prev = None
    for k, t, nl in toks:
        keep = nl if (t in lex.NL_SENSITIVE and nl > 0) else 0
        if prev is not None and lex.is_comment(prev):
            keep = max(1, min(nl, 1))
        if k in ("c2", "c3", "c4") and nl > 0:
            keep = 1  # an own-line comment stays an own-line comment (else it would become a trailing one: still legal, tested by `boundary`)
        out.append((k, t, keep))
        prev = (k, t, nl)
    return out, "layout-one-line"


def one_token_per_line(toks, rng=None):
    out = []
    for i, (k, t, nl) in enumerate(toks):
        if i == 0:
            out.append((k, t, nl))
        elif t in lex.NL_SENSITIVE and nl == 0:
            out.append((k, t, 0))
        else:
            out.append((k, t, max(nl, 1)))
    return out, "layout-token-per-line"


def blank_lines(toks, rng):
    out = []
    for i, (k, t, nl) in enumerate(toks):
        if nl == 1 and rng.chance(1, 3):
            nl = 2
        elif nl == 2 and rng.chance(1, 2):
            nl = 1
        out.append((k, t, nl))
    return out, "layout-blank-lines"


TOKEN_MUTATIONS = [literal, wrap_paren, unwrap_paren, swap_op, lambda t, r: trailing_commas(t, r, True), lambda t, r: trailing_commas(t, r, False), one_line, one_token_per_line, blank_lines]


def text_mutations(src, rng):
    """layout changes on the text itself -> [(text, name)]"""
    out = [(src.replace("\r\n", "\n").replace("\n", "\r\n"), "layout-crlf")]
    sp = lex.spans(src)
    # trailing white space / odd indentation at line breaks BETWEEN tokens only
    pieces = []
    last = 0
    for i in range(len(sp) - 1):
        if sp[i + 1][2] > 0 and sp[i][0] not in ("c2", "c3", "c4"):
            pieces.append(src[last: sp[i][4]] + rng.pick(["  ", "\t", " \t ", ""]))
            last = sp[i][4]
    pieces.append(src[last:])
    out.append(("".join(pieces), "layout-trailing-whitespace"))
    out.append((src.rstrip("\n"), "layout-no-final-newline"))
    out.append(("\n\n" + src + "\n\n\n", "layout-leading-trailing-blank-lines"))
    out.append((src.replace("\n", "\n\t"), "layout-tab-indent") if '"' not in src else (src, "noop"))
    return [(t, n) for t, n in out if n != "noop" and t != src]


def mutants(src, rng, n=4):
    toks = lex.tokens(src)
    out = []
    if not toks:
        return out
    for _ in range(n):
        f = rng.pick(TOKEN_MUTATIONS)
        r = f(toks, rng)
        if r is None:
            continue
        new, name = r
        if rng.chance(1, 4):  # stack a second mutation
            r2 = rng.pick(TOKEN_MUTATIONS)(new, rng)
            if r2 is not None:
                new, name = r2[0], name + "+" + r2[1]
        out.append((lex.render(new, indent=True), name))
    return out
