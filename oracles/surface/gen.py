"""G-surface: a direct grammar generator of syntactically valid Aiken modules (they need not
type-check).  Two parts:

  * `G(rng)`: random modules from the surface grammar (definitions, expressions, patterns,
    annotations, literals).  Every production records a tag in `self.tags`; the checker
    tracks which tags were accepted by the real parser (a tag that is never accepted is a
    generator bug).
  * `systematic()` (gen_sys.py): the deterministic enumeration (operator pairs in all
    nestings, capture positions, pattern forms, literal forms, definition forms).

Performance guard: the Aiken parser is exponential in directly nested parentheses /
unary operators; `MAX_PAREN` bounds the nesting of anything that starts with `(`, `-`, `!`.
"""
BINOPS = ["||", "&&", "==", "!=", "<", "<=", ">", ">=", "|>", "+", "-", "*", "/", "%"]
ARITH = ["+", "-", "*", "/", "%"]
CMP = ["==", "!=", "<", "<=", ">", ">="]
MAX_PAREN = 4

G1 = "97f1d3a73197d7942695638c4fa9ac0fc3688c4f9774b905a14e3a3f171bac586c55e83ff97a1aeffb3af00adb22c6bb"
G2 = ("93e02b6052719f607dacd3a088274f65596bd0d09920b61ab5da61bbdc7f5049334cf11213945d57e5ac7d055d042b7e"
      "024aa2b2f08f0a91260805272dc51051c6e47ad4fa403b02b4510b647ae3d1770bac0326a805bbefd48056c8c121bdb8")

NAMES = ["a", "b", "c", "x", "y", "xs", "acc", "foo", "bar_baz", "n1", "value", "datum", "ctx", "self_", "aB"]
UPS = ["Foo", "Bar", "Some", "None", "True", "False", "Void", "Constr0", "A", "My_Type", "Input"]
MODS = ["list", "dict", "m", "aiken_mod", "cardano"]
TYVARS = ["a", "b", "k", "v"]
DISCARDS = ["_", "_x", "_ignored", "_a_b", "_Foo", "_1"]
HOLES = ["_x", "_ignored", "_Foo", "_1", "_y2"]  # `_a_b` (two underscores) only at the known-defect rate


class G:
    def __init__(self, rng, size=3, known_defect_rate=(1, 40)):
        self.r = rng
        self.tags = set()
        self.size = size
        self.paren = 0
        self.kd = known_defect_rate
        self.pure = False  # inside `const`: no fail/todo/trace outside a block
        self.in_pipe = False
        self.no_trace = False

    # ------------------------------------------------------------ helpers
    def tag(self, t):
        self.tags.add(t)

    def pick(self, xs):
        return self.r.pick(xs)

    def ch(self, a, b):
        return self.r.chance(a, b)

    def name(self):
        return self.pick(NAMES)

    def up(self):
        return self.pick(UPS)

    def sepjoin(self, xs, trailing_ok=True):
        s = ", ".join(xs)
        if xs and trailing_ok and self.ch(1, 8):
            self.tag("layout:trailing-comma")
            s += ","
        return s

    def many(self, f, lo, hi):
        return [f() for _ in range(self.r.range(lo, hi))]

    # ------------------------------------------------------------ literals
    def int_lit(self):
        k = self.r.below(8)
        if k == 0:
            self.tag("int:zero")
            return "0"
        if k in (1, 2):
            self.tag("int:dec")
            return str(self.r.below(10 ** self.r.range(1, 20)))
        if k == 3:
            self.tag("int:underscore")
            if self.ch(*self.kd):
                self.tag("int:underscore-zero-group")  # known defect: `0_1` is printed `01`
                return self.pick(["0_1", "000_001", "0_0", "00_7"])
            return self.pick(["1_000_000", "1_0", "12_345", "999_999_999_999_999_999_999", "1_00_0", "10_0", "1_2_3"])
        if k == 4:
            self.tag("int:underscore-random")
            groups = [str(self.r.range(1, 999))] + [str(self.r.below(1000)) for _ in range(self.r.range(1, 3))]
            return "_".join(groups)
        if k == 5:
            self.tag("int:hex")
            return "0x" + "".join(self.pick("0123456789abcdef") for _ in range(self.r.range(1, 18)))
        if k == 6:
            self.tag("int:hex-upper")
            return self.pick(["0xFF", "0xDEADBEEF", "0x0", "0x00ff", "0xAbCd", "0x0000"])
        self.tag("int:big")
        return str(2 ** self.r.range(60, 130) + self.r.below(1000))

    def hexs(self, n=None):
        n = self.r.range(0, 6) if n is None else n
        return "".join(self.pick("0123456789abcdef") for _ in range(2 * n))

    def utf8_body(self):
        parts = []
        for _ in range(self.r.range(0, 4)):
            parts.append(self.pick(["foo", "hello world", "é", "日本", "\\n", "\\t", "\\\"", "\\\\", "\\r", "\\0", " ", "//x", "a/b", "{}", "#", "@", "'", "🙂", "0xff", "_"]))
        return "".join(parts)

    def bytes_lit(self, pattern=False):
        k = self.r.below(10)
        if k <= 2:
            self.tag("bytes:hex-string")
            h = self.hexs()
            if self.ch(1, 6):
                self.tag("bytes:hex-string-upper")
                h = h.upper()
            return '#"' + h + '"'
        if k <= 4:
            self.tag("bytes:utf8")
            return '"' + self.utf8_body() + '"'
        if k == 5:
            self.tag("bytes:array-dec")
            return "#[" + self.sepjoin([str(self.r.below(256)) for _ in range(self.r.range(0, 5))]) + "]"
        if k == 6:
            self.tag("bytes:array-hex")
            return "#[" + self.sepjoin([self.pick(["0x", "0x0", "0x00"]) + format(self.r.below(256), "x") for _ in range(self.r.range(1, 5))]) + "]"
        if k == 7:
            self.tag("bytes:array-underscore")
            return "#[" + self.sepjoin([self.pick(["1_0", "2_55", "1_2_3", "1_7"]) for _ in range(self.r.range(1, 3))]) + "]"
        if k == 8 and not pattern:
            if self.ch(1, 2):
                self.tag("bytes:curve-g1")
                return '#<Bls12_381, G1>"' + G1 + '"'
            self.tag("bytes:curve-g2")
            return '#<Bls12_381, G2>"' + G2 + '"'
        self.tag("bytes:empty")
        return self.pick(['#""', '""', "#[]"])

    def string_lit(self):
        self.tag("string")
        return '@"' + self.utf8_body() + '"'

    # ------------------------------------------------------------ annotations
    def ann(self, d=2):
        k = self.r.below(12 if d > 0 else 5)
        if k == 0:
            self.tag("ann:var")
            return self.pick(TYVARS)
        if k in (1, 2, 3):
            self.tag("ann:con")
            return self.pick(["Int", "Bool", "ByteArray", "Data", "Void", "String", "Foo", "My_Type"])
        if k == 4:
            self.tag("ann:hole")
            return self.pick(["_", "_a"])
        if k in (5, 6):
            self.tag("ann:con-args")
            return self.pick(["List", "Option", "Dict", "Foo"]) + "<" + self.sepjoin(self.many(lambda: self.ann(d - 1), 1, 2)) + ">"
        if k == 7:
            self.tag("ann:qualified")
            args = ""
            if self.ch(1, 2):
                self.tag("ann:qualified-args")
                args = "<" + self.sepjoin(self.many(lambda: self.ann(d - 1), 1, 2)) + ">"
            return self.pick(MODS) + "." + self.up() + args
        if k == 8:
            self.tag("ann:fn")
            return "fn(" + self.sepjoin(self.many(lambda: self.ann(d - 1), 0, 3)) + ") -> " + self.ann(d - 1)
        if k == 9:
            self.tag("ann:tuple")
            return "(" + self.sepjoin(self.many(lambda: self.ann(d - 1), 2, 3)) + ")"
        if k == 10:
            self.tag("ann:pair")
            return "Pair<" + self.ann(d - 1) + ", " + self.ann(d - 1) + ">"
        self.tag("ann:con-empty-args")
        return "Foo<" + self.ann(d - 1) + ",>" if self.ch(1, 3) else "List<" + self.ann(d - 1) + ">"

    # ------------------------------------------------------------ patterns
    def pat(self, d=2, top=True):
        p = self._pat(d)
        if self.ch(1, 10):
            self.tag("pat:as")
            p += " as " + self.name()
        return p

    def ctor_name(self):
        k = self.r.below(8)
        if k == 0:
            self.tag("pat:ctor-module")
            return self.pick(MODS) + "." + self.up()
        if k == 1:
            self.tag("pat:ctor-type-ns")
            return self.up() + "." + self.up()
        if k == 2:
            self.tag("pat:ctor-module-type-ns")
            return self.pick(MODS) + "." + self.up() + "." + self.up()
        return self.up()

    def _pat(self, d):
        k = self.r.below(16 if d > 0 else 7)
        if k <= 1:
            self.tag("pat:var")
            return self.name()
        if k == 2:
            self.tag("pat:discard")
            return self.pick(DISCARDS)
        if k == 3:
            self.tag("pat:int")
            s = self.int_lit()
            if self.ch(1, 3):
                self.tag("pat:int-negative")
                s = "-" + s
            return s
        if k == 4:
            self.tag("pat:bytes")
            return self.bytes_lit(pattern=True)
        if k in (5, 6):
            self.tag("pat:ctor-bare")
            return self.ctor_name()
        sub = lambda: self.pat(d - 1, False)  # noqa: E731
        if k == 7:
            self.tag("pat:tuple")
            return "(" + self.sepjoin(self.many(sub, 2, 3)) + ")"
        if k == 8:
            n = self.r.below(4)
            self.tag("pat:list")
            if n == 0:
                self.tag("pat:list-empty")
                return "[]"
            els = [sub() for _ in range(n)]
            t = self.r.below(6)
            if t == 0:
                self.tag("pat:list-tail-anon")
                return "[" + ", ".join(els) + ", ..]"
            if t == 1:
                self.tag("pat:list-tail-var")
                return "[" + ", ".join(els) + ", .." + self.name() + "]"
            if t == 2 and self.ch(1, 3):
                self.tag("pat:list-tail-discard")
                return "[" + ", ".join(els) + ", .." + ("_rest" if self.ch(*self.kd) else "_") + "]"  # `.._rest`: known defect (name dropped)
            return "[" + self.sepjoin(els) + "]"
        if k == 9:
            self.tag("pat:pair")
            return "Pair(" + sub() + ", " + sub() + ")"
        if k in (10, 11):
            self.tag("pat:ctor-positional")
            args = self.many(sub, 1, 3)
            if self.ch(1, 4):
                self.tag("pat:ctor-positional-spread")
                return self.ctor_name() + "(" + ", ".join(args) + ", ..)"
            return self.ctor_name() + "(" + self.sepjoin(args) + ")"
        if k == 12:
            self.tag("pat:ctor-spread-only")
            return self.ctor_name() + self.pick(["(..)", " { .. }"])
        if k in (13, 14):
            self.tag("pat:ctor-record")
            fs = []
            for _ in range(self.r.range(1, 3)):
                if self.ch(1, 2):
                    self.tag("pat:ctor-record-pun")
                    fs.append(self.name())
                else:
                    fs.append(self.name() + ": " + sub())
            if self.ch(1, 3):
                self.tag("pat:ctor-record-spread")
                return self.ctor_name() + " { " + ", ".join(fs) + ", .. }"
            return self.ctor_name() + " { " + self.sepjoin(fs) + " }"
        self.tag("pat:ctor-empty-args")
        return self.up() + self.pick(["()", " {}"])

    # ------------------------------------------------------------ expressions
    def atom(self):
        k = self.r.below(12)
        if k <= 3:
            self.tag("expr:var")
            return self.name()
        if k == 4:
            self.tag("expr:upvar")
            return self.up()
        if k in (5, 6):
            return self.int_lit()
        if k == 7:
            return self.string_lit()
        if k in (8, 9):
            return self.bytes_lit()
        if k == 10:
            self.tag("expr:qualified")
            return self.pick(MODS) + "." + self.pick(NAMES + UPS)
        self.tag("expr:bool")
        return self.pick(["True", "False"])

    def grouped(self, d):
        """a parenthesised / braced sub-expression (operand position)"""
        if self.paren >= MAX_PAREN:
            return self.atom()
        self.paren += 1
        try:
            if self.ch(1, 4):
                self.tag("expr:block-operand")
                if self.ch(1, 3):
                    self.tag("expr:block-operand-sequence")
                    old, self.no_trace = self.no_trace, not self.ch(*self.kd)  # a trace in an operand block: known defect
                    try:
                        return "{\n" + self.sequence(d - 1) + "\n}"
                    finally:
                        self.no_trace = old
                return "{ " + self.expr(d - 1) + " }"
            self.tag("expr:paren")
            return "(" + self.expr(d - 1) + ")"
        finally:
            self.paren -= 1

    def args(self, d, lo=0, hi=3, allow_label=True):
        out = []
        for _ in range(self.r.range(lo, hi)):
            a = self.expr(d - 1)
            if allow_label and self.ch(1, 5):
                self.tag("call:labelled-arg")
                a = self.name() + ": " + a
            out.append(a)
        return out

    def capture_call(self, d):
        n = self.r.range(1, 4)
        pos = self.r.below(n)
        args = self.args(d, n, n, allow_label=False)
        for i in range(n):
            if i != pos and self.ch(1, 6):
                self.tag("call:labelled-arg")
                args[i] = self.name() + ": " + args[i]
        hole = self.pick(HOLES) if self.ch(1, 4) else "_"
        if hole != "_":
            self.tag("capture:named-hole")
            if self.ch(*self.kd):
                self.tag("capture:named-hole-two-underscores")  # known defect: printed as `_b`
                hole = "_a_b"
        if self.ch(1, 5) and (not self.in_pipe or self.ch(*self.kd)):
            self.tag("capture:labelled-hole")  # after `|>`: known defect (label dropped)
            hole = self.name() + ": " + hole
        args[pos] = hole
        self.tag(f"capture:pos{pos}of{n}")
        if n >= 2 and self.ch(1, 8) and (not self.in_pipe or self.ch(*self.kd)):
            self.tag("capture:two-holes")
            args[(pos + 1) % n] = "_"
        return "(" + ", ".join(args) + ")"

    def callee(self):
        k = self.r.below(5)
        if k == 0:
            self.tag("call:qualified")
            return self.pick(MODS) + "." + self.name()
        return self.name()

    def record(self, d):
        k = self.r.below(10)
        q = ""
        if self.ch(1, 5):
            q = self.pick([self.pick(MODS) + ".", self.up() + ".", self.pick(MODS) + "." + self.up() + "."])
            self.tag("record:qualified")
        c = q + self.up()
        if k <= 1:
            self.tag("record:positional")
            return c + "(" + self.sepjoin(self.args(d, 0, 3, allow_label=False)) + ")"
        if k <= 3:
            self.tag("record:labelled")
            fs = [self.name() + ": " + self.expr(d - 1) for _ in range(self.r.range(1, 3))]
            return c + " { " + self.sepjoin(fs) + " }"
        if k == 4:
            self.tag("record:punned")
            fs = [self.name() if self.ch(2, 3) else self.name() + ": " + self.expr(d - 1) for _ in range(self.r.range(1, 3))]
            return c + " { " + self.sepjoin(fs) + " }"
        if k == 5:
            self.tag("record:update")
            fs = ["a: " + self.expr(d - 1)] if self.ch(2, 3) else []
            if self.ch(1, 3):
                self.tag("record:update-pun")
                fs.append(self.name())
            q2 = self.pick(MODS) + "." if self.ch(1, 4) else ""
            if q2:
                self.tag("record:update-qualified")
            return q2 + self.up() + " { .." + self.operand(d - 1, simple=True) + "".join(", " + f for f in fs) + " }"
        if k == 6:
            self.tag("record:capture-positional")
            return c + self._positional_capture(d)
        if k == 7:
            self.tag("record:empty")
            return c + self.pick([" {}", "()"])
        if k == 8 and self.ch(*self.kd):
            # KNOWN DEFECT acceptance_tests/121: printed with parentheses, does not re-parse
            self.tag("record:capture-labelled-hole")
            fs = [self.name() + ": " + self.expr(d - 1) for _ in range(self.r.range(0, 2))]
            fs.insert(self.r.below(len(fs) + 1), self.name() + ": " + self.pick(["_", "_x"]))
            return c + " { " + ", ".join(fs) + " }"
        self.tag("record:positional")
        return c + "(" + ", ".join(self.args(d, 1, 2, allow_label=False)) + ")"

    def _positional_capture(self, d):
        n = self.r.range(1, 3)
        args = self.args(d, n, n, allow_label=False)
        args[self.r.below(n)] = "_"
        return "(" + ", ".join(args) + ")"

    def operand(self, d, simple=False):
        """a `chained` unit: chain_start followed by .field / .1st / (args) and optional `?`"""
        if d <= 0:
            return self.atom()
        k = self.r.below(26 if not simple else 8)
        s = None
        if k <= 3:
            s = self.atom()
        elif k == 4:
            self.tag("expr:field-access")
            s = self.name() + "".join("." + self.name() for _ in range(self.r.range(1, 2)))
        elif k == 5:
            self.tag("expr:tuple-index")
            s = self.name() + "." + self.pick(["1st", "2nd", "3rd", "4th", "11th", "12th", "21st", "22nd", "23rd", "101st"])
        elif k in (6, 7):
            self.tag("expr:call")
            s = self.callee() + "(" + self.sepjoin(self.args(d)) + ")"
        elif k == 8:
            self.tag("expr:capture")
            s = self.callee() + self.capture_call(d)
        elif k in (9, 10):
            s = self.record(d)
        elif k == 11:
            self.tag("expr:tuple")
            if self.paren >= MAX_PAREN:
                return self.atom()
            self.paren += 1
            s = "(" + self.sepjoin(self.many(lambda: self.expr(d - 1), 2, 3)) + ")"
            self.paren -= 1
        elif k == 12:
            self.tag("expr:pair")
            s = "Pair(" + self.expr(d - 1) + ", " + self.expr(d - 1) + ")"
        elif k == 13:
            self.tag("expr:list")
            els = self.many(lambda: self.expr(d - 1), 0, 4)
            if els and self.ch(1, 3):
                self.tag("expr:list-spread")
                s = "[" + ", ".join(els) + ", .." + self.operand(d - 1, simple=True) + "]"
            else:
                s = "[" + self.sepjoin(els) + "]"
        elif k in (14, 15):
            s = self.grouped(d)
        elif k == 16:
            s = self.lambda_(d)
        elif k == 17:
            s = self.when(d)
        elif k == 18:
            s = self.if_(d)
        elif k == 19:
            s = self.and_or(d)
        elif k == 20:
            self.tag("expr:call-chain")
            s = self.callee() + "(" + self.sepjoin(self.args(d, 0, 2)) + ")" + self.pick([".field", ".1st", "(" + self.expr(d - 1) + ")", ".2nd.1st", ".a.b"])
        elif k == 21:
            tail = self.pick([".field", ".1st", "(" + self.expr(d - 1) + ")", "()"])
            if self.ch(*self.kd):
                self.tag("expr:grouped-chain")  # known defect when the group holds an operator
                s = self.grouped(d) + tail
            else:
                self.tag("expr:grouped-atom-chain")
                s = self.pick(["(%s)", "{ %s }"]) % self.pick([self.name(), self.callee() + "(" + self.name() + ")", "[" + self.name() + "]", "(a, b)"]) + tail
        elif k == 22:
            self.tag("expr:binop-as-value")
            op = self.pick([o for o in BINOPS if o != "|>"])
            others = self.args(d, 0, 2, allow_label=False)
            # a `-` directly before `)` is read as a unary minus: never put it last
            others.insert(self.r.below(len(others) + (0 if op == "-" and others else 1)) if not (op == "-" and not others) else 0, op)
            if op == "-" and others[-1] == "-":
                others.append(self.name())
            s = self.callee() + "(" + ", ".join(others) + ")"
        elif k == 23 and not self.pure:
            self.tag("expr:fail-todo-in-call")
            s = self.callee() + "(" + self.pick(["todo", "fail", 'todo @"later"', 'fail @"no"']) + ", " + self.expr(d - 1) + ")"
        elif k == 24:
            self.tag("expr:lambda-call-arg")
            s = self.callee() + "(" + self.expr(d - 1) + ", " + self.lambda_(d) + ")"
        else:
            s = self.atom()
        if self.ch(1, 14):
            self.tag("expr:question-mark")
            s += "?"
        return s

    def unary(self, d):
        op = self.pick(["-", "!"])
        k = self.r.below(5)
        if self.paren >= MAX_PAREN:
            k = 0
        self.paren += 1
        try:
            if k <= 1:
                self.tag(f"unary:{op}:operand")
                return op + self.operand(d - 1)
            if k == 2:
                self.tag(f"unary:{op}:paren")
                return op + "(" + self.expr(d - 1) + ")"
            if k == 3:
                self.tag(f"unary:{op}:block")
                return op + "{ " + self.expr(d - 1) + " }"
            op2 = self.pick(["-", "!"])
            self.tag(f"unary:{op}{op2}:double")
            return op + op2 + self.operand(d - 1)
        finally:
            self.paren -= 1

    def binexpr(self, d):
        n = self.r.range(2, 4)
        parts = []
        for i in range(n):
            if i:
                op = self.pick(BINOPS)
                self.tag("binop:" + op)
                if op == "|>" and self.ch(1, 2):
                    parts.append(self.pick(["\n|>", "|>"]))
                    parts.append(self.pipe_rhs(d))
                    continue
                parts.append(op)
            if self.ch(1, 6):
                parts.append(self.unary(d))
            else:
                parts.append(self.operand(d - 1))
        return " ".join(parts)

    def pipe_rhs(self, d):
        k = self.r.below(6)
        if k == 0:
            self.tag("pipe:into-name")
            return self.callee()
        if k == 1:
            self.tag("pipe:into-call")
            return self.callee() + "(" + self.sepjoin(self.args(d, 0, 2)) + ")"
        if k == 2:
            self.tag("pipe:into-capture")
            self.in_pipe = True
            try:
                return self.callee() + self.capture_call(d)
            finally:
                self.in_pipe = False
        if k == 3:
            self.tag("pipe:into-lambda")
            return self.lambda_(d)
        if k == 4:
            self.tag("pipe:into-capture-first")
            return self.callee() + "(_" + "".join(", " + a for a in self.args(d, 0, 2)) + ")"
        self.tag("pipe:into-grouped")
        return self.grouped(d)

    def expr(self, d=None):
        """any `expression` except a bare trace/let (those are statements)"""
        d = self.size if d is None else d
        if d <= 0:
            return self.atom()
        k = self.r.below(10)
        if k <= 3:
            return self.operand(d)
        if k <= 6:
            return self.binexpr(d)
        if k == 7:
            return self.unary(d)
        if k == 8:
            self.tag("expr:pipeline")
            s = self.operand(d - 1)
            multi = self.ch(1, 2)
            for _ in range(self.r.range(1, 3)):
                s += ("\n|> " if multi else " |> ") + self.pipe_rhs(d)
            return s
        return self.operand(d)

    def lambda_(self, d):
        self.tag("expr:lambda")
        ps = []
        for _ in range(self.r.range(0, 3)):
            k = self.r.below(6)
            if k <= 2:
                p = self.name()
            elif k == 3:
                p = self.pick(DISCARDS)
            else:
                self.tag("lambda:pattern-arg")
                p = self.pick(["(a, b)", "Foo { a, b }", "Pair(k, v)", "[x, ..]", "Some(x)", "Foo(a, _) as whole", "Foo.Bar(x)", "[]", "(a, (b, c))"])
            if self.ch(1, 3):
                self.tag("lambda:annotated-arg")
                p += ": " + self.ann(1)
            ps.append(p)
        ret = ""
        if self.ch(1, 4):
            self.tag("lambda:return-annotation")
            ret = " -> " + self.ann(1)
        body = self.sequence(d - 1) if self.ch(1, 3) else self.expr(d - 1)
        return "fn(" + self.sepjoin(ps) + ")" + ret + " {\n" + body + "\n}"

    def when(self, d):
        self.tag("expr:when")
        n = self.r.range(0, 3) if self.ch(1, 12) else self.r.range(1, 3)
        if n == 0:
            self.tag("when:no-clauses")
        cl = []
        for _ in range(n):
            p = self.pat(2)
            if self.ch(1, 5):
                self.tag("when:alternatives")
                p += " | " + self.pat(1)
            cl.append(p + " -> " + self.clause_body(d))
        return "when " + self.cond(d) + " is {\n" + "\n".join(cl) + "\n}"

    def clause_body(self, d):
        k = self.r.below(8)
        if k == 0:
            self.tag("clause:block")
            return "{\n" + self.sequence(d - 1) + "\n}"
        if k == 1 and not self.pure:
            self.tag("clause:fail-todo")
            return self.pick(["fail", "todo", 'fail @"impossible"', 'todo @"x"', "fail err_msg"])
        return self.expr(d - 1)

    def cond(self, d):
        """an expression safe before `{` / `is`: no record literal at the end"""
        k = self.r.below(5)
        if k == 0:
            return self.name()
        if k == 1:
            return self.callee() + "(" + self.sepjoin(self.args(d, 0, 2)) + ")"
        if k == 2:
            return self.name() + " " + self.pick(CMP + ["&&", "||"]) + " " + self.pick([self.name(), self.int_lit()])
        if k == 3:
            return self.grouped(d)
        return "!" + self.name()

    def if_(self, d):
        self.tag("expr:if")
        s = "if " + self.if_cond(d) + " {\n" + self.body(d - 1) + "\n}"
        for _ in range(self.r.below(3) if self.ch(1, 3) else 0):
            self.tag("if:else-if")
            s += " else if " + self.if_cond(d) + " {\n" + self.body(d - 1) + "\n}"
        return s + " else {\n" + self.body(d - 1) + "\n}"

    def if_cond(self, d):
        c = self.cond(d)
        k = self.r.below(8)
        if k == 0:
            self.tag("if:is-annotation")
            return self.name() + " is " + self.ann(1)
        if k == 1:
            self.tag("if:is-pattern")
            return c + " is " + self.pat(1) + ": " + self.ann(1)
        return c

    def and_or(self, d):
        kw = self.pick(["and", "or"])
        self.tag("expr:" + kw + "-block")
        els = self.many(lambda: self.expr(d - 1), 0 if self.ch(*self.kd) else 1, 3)  # `and {}`: known defect
        return kw + " {\n" + ",\n".join(els) + ("," if els and self.ch(2, 3) else "") + "\n}"

    # ------------------------------------------------------------ statements
    def statement(self, d):
        k = self.r.below(14)
        val = lambda: self.expr(d)  # noqa: E731
        if k <= 2:
            self.tag("stmt:let")
            p = self.pat(2) if self.ch(1, 3) else self.name()
            if self.ch(1, 4):
                self.tag("stmt:let-annotated")
                p += ": " + self.ann(1)
            return "let " + p + " = " + val()
        if k == 3:
            self.tag("stmt:expect-pattern")
            p = self.pat(2)
            if self.ch(1, 3):
                self.tag("stmt:expect-annotated")
                p += ": " + self.ann(1)
            return "expect " + p + " = " + val()
        if k == 4:
            self.tag("stmt:expect-bool")
            return "expect " + val()
        if k == 5:
            self.tag("stmt:backpassing")
            ps = [self.pat(1) if self.ch(1, 3) else self.name() for _ in range(self.r.range(1, 2))]
            if len(ps) > 1:
                self.tag("stmt:backpassing-multi")
            kw = self.pick(["let", "let", "expect"])
            return kw + " " + ", ".join(ps) + " <- " + self.callee() + "(" + self.sepjoin(self.args(d, 0, 2)) + ")"
        if k == 6 and not self.pure and not self.no_trace:
            self.tag("stmt:trace")
            label = self.pick([self.string_lit(), '"bytes label"', self.name(), self.callee() + "(" + self.name() + ")"])
            s = "trace " + label
            if self.ch(1, 2):
                self.tag("stmt:trace-args")
                s += ": " + ", ".join(self.many(lambda: self.pick([self.operand(d - 1), self.string_lit()]), 1, 3))
            return s
        if k == 7:
            self.tag("stmt:let-block-value")
            return "let " + self.name() + " = {\n" + self.sequence(d - 1) + "\n}"
        if k == 8:
            self.tag("stmt:expect-comment")
            return "/// must hold\nexpect " + self.pick([self.name() + " == " + self.int_lit(), "Some(" + self.name() + ") = " + self.name()])
        return val()

    def sequence(self, d, lo=1, hi=3):
        n = self.r.range(lo, hi)
        out = []
        for i in range(n):
            last = i == n - 1
            if last:
                k = self.r.below(10)
                if k == 0 and not self.pure:
                    self.tag("stmt:tail-fail-todo")
                    out.append(self.pick(["fail", "todo", 'fail @"msg"', 'todo @"msg"', 'fail "bytes msg"', "todo " + self.name(), "fail string.concat(a, b)"]))
                elif k == 1 and n > 1:
                    out.append(self.statement(d))
                else:
                    out.append(self.expr(d))
            else:
                out.append(self.statement(d))
            if not last and self.ch(1, 5):
                self.tag("layout:blank-line")
                out.append("")
        if len(out) > 1:
            self.tag("expr:sequence")
        return "\n".join(out)

    def body(self, d):
        return self.sequence(d) if self.ch(1, 2) else self.expr(d)

    # ------------------------------------------------------------ definitions
    def param(self):
        k = self.r.below(8)
        if k <= 2:
            p = self.name()
        elif k == 3:
            self.tag("param:label-name")
            p = self.name() + " " + self.pick(["inner", "val"])
        elif k == 4:
            self.tag("param:discard")
            p = self.pick(DISCARDS)
        elif k == 5:
            self.tag("param:label-discard")
            p = self.name() + " " + self.pick(DISCARDS)
        else:
            self.tag("param:pattern")
            p = self.pick(["(a, b)", "Foo { a, b }", "Pair(k, v)", "[x, ..]", "Some(x)", "Foo(a, _)"])
        if self.ch(2, 3):
            self.tag("param:annotated")
            p += ": " + self.ann(2)
        return p

    def def_fn(self):
        self.tag("def:fn")
        pub = ""
        if self.ch(1, 3):
            self.tag("def:pub-fn")
            pub = "pub "
        ret = ""
        if self.ch(1, 2):
            self.tag("def:fn-return-annotation")
            ret = " -> " + self.ann(2)
        if self.ch(1, 25):
            self.tag("def:fn-empty-body")
            body = ""
        else:
            body = self.body(self.size)
        return pub + "fn " + self.name() + "(" + self.sepjoin(self.many(self.param, 0, 3)) + ")" + ret + " {\n" + body + "\n}"

    def def_const(self):
        self.tag("def:const")
        pub = "pub " if self.ch(1, 3) else ""
        a = ""
        if self.ch(1, 2):
            self.tag("def:const-annotated")
            a = ": " + self.ann(2)
        self.pure = True
        try:
            return pub + "const " + self.name() + a + " = " + self.expr(2)
        finally:
            self.pure = False

    def decorators(self):
        if self.ch(1, 5):
            k = self.r.below(3)
            if k == 0:
                self.tag("decorator:list")
                return "@list\n"
            if k == 1:
                self.tag("decorator:tag")
                return "@tag(" + self.pick(["0", "1", "42", "121", "1_000", "0x10"]) + ")\n"
            self.tag("decorator:two")
            return "@tag(3)\n@list\n"
        return ""

    def def_type(self):
        pub = self.pick(["", "pub ", "pub opaque ", "opaque "])
        if "opaque" in pub:
            self.tag("def:opaque-type")
        params = ""
        if self.ch(1, 3):
            self.tag("def:type-generics")
            params = "<" + self.sepjoin(self.r.shuffle(TYVARS)[: self.r.range(1, 2)]) + ">"
        head = self.decorators() + pub + "type " + self.up() + params
        k = self.r.below(6)
        field = lambda: self.name() + ": " + self.ann(2)  # noqa: E731
        if k == 0:
            self.tag("def:type-alias")
            return ("pub " if self.ch(1, 2) else "") + "type " + self.up() + params + " = " + self.ann(2)
        if k == 1:
            self.tag("def:type-record-sugar")
            return head + " {\n" + ",\n".join(self.many(field, 1, 3)) + ("," if self.ch(2, 3) else "") + "\n}"
        self.tag("def:type-adt")
        cs = []
        for _ in range(self.r.range(1, 3)):
            c = self.decorators() + self.up()
            j = self.r.below(4)
            if j == 1:
                self.tag("def:ctor-positional")
                c += "(" + self.sepjoin(self.many(lambda: self.ann(2), 1, 3)) + ")"
            elif j == 2:
                self.tag("def:ctor-record")
                c += " { " + self.sepjoin(self.many(field, 1, 3)) + " }"
            cs.append(c)
        return head + " {\n" + "\n".join(cs) + "\n}"

    def def_use(self):
        self.tag("def:use")
        path = "/".join(self.pick(["aiken", "cardano", "list", "transaction", "env", "config", "my_lib", "a"]) for _ in range(self.r.range(1, 3)))
        s = "use " + path
        if self.ch(1, 2):
            self.tag("use:unqualified")
            items = []
            for _ in range(self.r.range(0, 3)):
                if self.ch(1, 2):
                    it = self.name()
                    if self.ch(1, 4):
                        self.tag("use:unqualified-as")
                        it += " as " + self.name()
                else:
                    it = self.up()
                    if self.ch(1, 4):
                        self.tag("use:unqualified-as")
                        it += " as " + self.up()
                items.append(it)
            s += ".{" + self.sepjoin(items) + "}"
        if self.ch(1, 4):
            self.tag("use:as")
            s += " as " + self.name()
        return s

    def fuzzer(self, d=2):
        k = self.r.below(7 if d > 0 else 3)
        if k == 0:
            return self.name()
        if k == 1:
            return self.pick(MODS) + "." + self.name() + "()"
        if k == 2:
            return self.pick(["1", "-1", '@"s"', '#"00"', '"b"'])
        sub = lambda: self.fuzzer(d - 1)  # noqa: E731
        if k == 3:
            return self.name() + "(" + self.sepjoin(self.many(sub, 0, 2)) + ")"
        if k == 4:
            return "(" + sub() + ", " + sub() + ")"
        if k == 5:
            return "[" + self.sepjoin(self.many(sub, 0, 2)) + "]"
        return self.name() + "(" + sub() + ").1st"

    def def_test(self, kw="test"):
        self.tag("def:" + kw)
        args = []
        if self.ch(1, 3):
            self.tag("def:" + kw + "-via")
            for _ in range(self.r.range(1, 2)):
                p = self.pick([self.name(), self.pick(DISCARDS), "(a, b)"])
                if self.ch(1, 3):
                    self.tag("def:via-annotated")
                    p += ": " + self.ann(1)
                args.append(p + " via " + self.fuzzer())
        fail = ""
        if kw == "test" and self.ch(1, 4):
            self.tag("def:test-fail")
            fail = self.pick([" fail", " fail once"])
        return kw + " " + self.name() + "(" + self.sepjoin(args) + ")" + fail + " {\n" + self.body(self.size) + "\n}"

    def def_validator(self):
        self.tag("def:validator")
        params = ""
        if self.ch(1, 2):
            self.tag("def:validator-params")
            params = "(" + self.sepjoin(self.many(self.param, 0, 2)) + ")"
        hs = []
        for h in self.r.shuffle(["spend", "mint", "withdraw", "publish", "vote", "propose"])[: self.r.range(0, 3)]:
            ret = ""
            if self.ch(1, 5):
                self.tag("def:handler-return-annotation")
                ret = " -> " + self.pick(["Bool", "Void", "Int"])
            hs.append(h + "(" + self.sepjoin(self.many(self.param, 0, 3)) + ")" + ret + " {\n" + self.body(self.size - 1) + "\n}")
        if self.ch(1, 2) or not hs:
            self.tag("def:validator-else")
            hs.append("else(" + self.pick(["_", "_ctx", "ctx: ScriptContext"]) + ") {\n" + self.body(1) + "\n}")
        return "validator " + self.name() + params + " {\n" + "\n\n".join(hs) + "\n}"

    def definition(self):
        k = self.r.below(20)
        if k <= 8:
            return self.def_fn()
        if k <= 10:
            return self.def_const()
        if k <= 13:
            return self.def_type()
        if k <= 15:
            return self.def_test()
        if k == 16:
            return self.def_test("bench")
        if k == 17:
            return self.def_validator()
        return self.def_fn()

    def module(self, ndefs=None):
        self.tags = set()
        n = self.r.range(1, 3) if ndefs is None else ndefs
        parts = []
        if self.ch(1, 4):
            parts += self.many(self.def_use, 1, 3)
        parts += [self.definition() for _ in range(n)]
        return "\n\n".join(parts) + "\n", set(self.tags)
