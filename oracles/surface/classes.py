"""Names for the constructs that minimal failing inputs boil down to (FINDINGS.md says what
each one is).  A rule = (class, kinds or None, signature head or None, regex on the CANONICAL
minimal source produced by triage.canonical).  First match wins; anything else is reported
as `unclassified:<canonical minimal source>` (still a stable key: same minimal input, same
key)."""
import re

OP = r"(?:↵?(?:\+|-|\*|/|%|==|!=|<=|>=|<|>|&&|\|\||\|>))"
CM = r"(?:///? \S+\s*)"  # an abstracted comment token
COMMENTS = ("comments-lost-or-reordered",)

_RULES = [
    # ---- comments
    ("comment-in-record-pattern-lost", COMMENTS, "lost", r"[A-Z]\w*\s*" + CM + r"*\{"),
    ("doc-comment-after-decorator", None, None, r"@\s*" + CM + r"*\w+(?:\(\w+\))?\s*" + CM + r"*/// "),
    ("doc-comment-moved-into-fn-type", COMMENTS, None, r"/// \S+\s+" + CM + r"*(?:[a-z_]\w*\s*){0,2}" + CM + r"*:[^,{}]*?fn\("),
    ("stray-doc-comment-relocated", COMMENTS, "doc-comment-moved", r"/// "),
    ("stray-doc-comment-relocated", COMMENTS, "reordered-across-kinds", r"\S.*/// "),
    ("comment-between-imports", None, None, r"^\s*(?:////? \S+\s*)*use\b.*// .*\buse\b|^\s*(?:// \S+\s*)+use\b"),
    # ---- captures
    ("pipe-capture-labelled-hole", None, None, r"\|>\s*[\w.]+\s*[({][^(){}]*\b[a-z]\w* : _|\|>.*[)}]\(\s*[a-z]\w* : _\w*\s*[,)]"),
    ("pipe-capture-two-holes", None, None, r"\|>\s*[\w.]+\(_\w*, _|\|>\s*[\w.]+\(_\w*, .*, _\w*\s*[,)]"),
    ("record-capture-hole", None, None, r"\b(?:[a-z]\w*\.)?(?:[A-Z]\w*\.)?[A-Z]\w* \{[^{}]*\b[a-z]\w* : _\w*"),
    ("capture-labelled-hole-label-dropped", ("ast-changed",), None, r"[\w.]\([a-z]\w* : _\w*, "),
    ("capture-hole-name-truncated", ("ast-changed", "not-idempotent"), None, r"[(,:]\s*_\w*[A-Za-z0-9]_\w+"),
    # ---- operators as values
    ("anonymous-minus-line-break", ("output-does-not-parse",), None, r"[(,]\s*-\s*(?:// \S+\s*)?,"),
    ("anonymous-operator-parens-dropped", None, None, r"↵\(\s*" + OP + r"\s*\)"),
    # ---- things that lose their parentheses / braces
    ("empty-logical-chain", None, None, r"\b(?:and|or) \{ \}"),
    ("question-mark-parens-dropped", None, None, r"\?\s*[)}]\s*(?:\(|\.|\?)"),
    ("fail-todo-parens-dropped", None, None, r"\((?:fail|todo)\b[^()]*\)|\{ (?:fail|todo)\b[^{}]*\}|\btrace (?:fail|todo)\b"),
    ("trace-braces-dropped", None, None, r"[({]\s*trace\b"),
    ("tuple-index-on-broken-pipeline", ("output-does-not-parse",), None, r"↵\|>[^()]*\)\.\d+(?:st|nd|rd|th)"),
    ("trace-argument-braces-dropped", None, None, r"\btrace\b.*[:,]\s*\{\s*@?\""),
    ("chain-head-parens-dropped", None, None, r"[({]\s*(?:↵?- |! |.*?\s" + OP + r"\s).*?[)}]\s*(?:\(|\.\w)"),
    ("anonymous-operator-parens-dropped", None, None, r"[({]\s*(?:\+|\*|/|%|==|!=|<=|>=|<|>|&&|\|\|)\s+[\w@\"]|(?:\+|\*|/|%|==|!=|<=|>=|<|>|&&|\|\|)\("),
    # ---- patterns / literals / definitions
    ("expect-true-sugar-overapplied", None, None, r"\bexpect True\s*(?:[({]|<-)"),
    ("pair-pattern-trailing-comma", None, None, r"\bPair\([^()]*, \)"),
    ("list-tail-discard-name-dropped", None, None, r"\.\._\w+\]"),
    ("int-underscore-zero-group", None, None, r"(?<![\w])0\d*_\d"),
    ("empty-bytearray-broken-line", ("output-does-not-parse",), None, r"#\[\]"),
    ("lambda-nested-block-assignment-layout", ("not-idempotent",), None, r"fn\([^()]*\)\s*(?:->[^{]*)?\{ \{ (?:let|expect)\b"),
    ("comment-before-pipe-layout", ("not-idempotent",), None, r"// .*\|>|\|>\s*// "),
    ("comment-in-labelled-pattern-field-layout", ("not-idempotent",), None, r"\{[^{}]*\b[a-z]\w* // \S+\s*:|\{[^{}]*\b[a-z]\w* : // "),
    ("comment-before-module-comments-layout", ("not-idempotent",), None, r"// \S+\s*//// "),
    ("comment-at-end-of-module-blank-lines-layout", ("not-idempotent",), None, r"// \S+\s*⏎⏎\s*$"),
    ("unary-on-operator-value-glued", None, None, r"(?:-|!)\s*(?:\+|-|\*|/|%|==|!=|<=|>=|<|>|&&|\|\||=)\s*[,)}\]]"),
    ("comment-placement-not-idempotent", ("not-idempotent",), None, r"// "),
    ("empty-data-type", None, None, r"\btype [A-Z]\w*(?:<[^>]*>)? \{ \}"),
]
RULES = [(n, k, h, re.compile(p, re.S)) for n, k, h, p in _RULES]


def classify(kind, canon, sig=()):
    for name, kinds, head, pat in RULES:
        if kinds and kind not in kinds:
            continue
        if head and (not sig or sig[0] != head):
            continue
        if pat.search(canon):
            return name
    import hashlib

    return "unclassified:" + hashlib.sha256(canon.encode()).hexdigest()[:10]
