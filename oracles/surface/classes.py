"""Names for the constructs that minimal failing inputs boil down to (see FINDINGS.md for
what each one is).  A rule = (class, kinds or None, regex on the CANONICAL minimal source
produced by triage.canonical).  First match wins; anything else is reported as
`unclassified:<canonical minimal source>` (still a stable key: same minimal input, same key).
"""
import re

OP = r"(?:\+|-|\*|/|%|==|!=|<=|>=|<|>|&&|\|\||\|>)"

_RULES = [
    # ---- captures
    ("pipe-capture-labelled-hole", None, r"\|>\s*[\w.]+\s*[({][^(){}]*\b[a-z]\w* : _"),
    ("pipe-capture-two-holes", None, r"\|>\s*[\w.]+\(_\w*, _"),
    ("record-capture-hole", None, r"\b(?:[a-z]\w*\.)?(?:[A-Z]\w*\.)?[A-Z]\w* \{[^{}]*\b[a-z]\w* : _\w*"),
    ("capture-hole-name-truncated", ("ast-changed", "not-idempotent"), r"[(,:]\s*_\w*[A-Za-z0-9]_\w+"),
    # ---- things that lose their parentheses / braces
    ("empty-logical-chain", None, r"\b(?:and|or) \{ \}"),
    ("question-mark-parens-dropped", None, r"\([^()]*\?\)\s*(?:\(|\.|\?)"),
    ("fail-todo-parens-dropped", None, r"\((?:fail|todo)\b[^()]*\)|\{ (?:fail|todo)\b[^{}]*\}|\btrace (?:fail|todo)\b"),
    ("trace-braces-dropped", None, r"[({]\s*trace\b"),
    ("chain-head-parens-dropped", None, r"\((?:- |! |[^()]*\s" + OP + r"\s)[^()]*\)\s*(?:\(|\.\w)"),
    # ---- patterns / literals / definitions
    ("list-tail-discard-name-dropped", None, r"\.\._\w+\]"),
    ("int-underscore-zero-group", None, r"(?<![\w])0\d*_\d"),
    ("empty-data-type", None, r"\btype [A-Z]\w*(?:<[^>]*>)? \{ \}"),
]
RULES = [(n, k, re.compile(p)) for n, k, p in _RULES]


def classify(kind, canon):
    for name, kinds, pat in RULES:
        if kinds and kind not in kinds:
            continue
        if pat.search(canon):
            return name
    return "unclassified:" + canon[:80]
