#!/usr/bin/env python3
"""C13 — the formatter preserves programs (see surface/)."""
import os
import sys

here = os.path.dirname(os.path.abspath(__file__))
sys.path.insert(0, here)
import wrap
from surface import run_c13  # noqa: E402

if __name__ == "__main__":
    wrap.run_component(
        "C13", "exploration", run_c13.run,
        rule="all shipped .ak files, every snippet harvested from the repository's formatter / parser / checker tests that parses, ~9 500 systematically enumerated modules (every pair of binary operators in both nestings with and without parentheses, unary operators, pipes, captures with `_` in every position, record constructors in every spelling, every pattern form, literals in every notation, every definition kind) plus random modules, comment insertion at every legal token boundary (unique texts), layout mutation; per accepted input: output parses, erased AST equal after documented semantics-neutral normalisations (full erased trees compared, not the first difference), ordered comment texts equal, doc comments stay in front of the same token, second formatting changes nothing; failing inputs are delta-minimised and the responsible construct named (that name is the violation key)",
        floor={"evaluations": 5000},
        # one defect class shows up under several symptoms (does not parse / tree changed / comments /
        # not idempotent): the violation key is the minimised construct, the symptoms stay in the witness
        rekey=lambda key: "C13|formatter|" + key.split("|")[-1] if key.startswith("C13|") and key.count("|") == 2 else key,
        assumptions=[
            "accepted normalisations are listed with justification in oracles/surface/NOTES.md (import sorting/merging, single-expression block = expression, `x |> f(_, a)` = `x |> f(a)`, numeric underscore spelling, `Foo {}` = `Foo`, hoisting of module comments, `//` above `///` of one definition)",
            "an input the parser rejects is skipped, never judged",
        ],
    )
