#!/usr/bin/env python3
"""C10 — evaluation and compilation never crash.

Monitors: catch_unwind around every evaluation / compilation in drivers built with
overflow checks and debug assertions (arithmetic overflow becomes a visible panic),
subprocess shards (stack overflow / abort / OOM kill the shard and are attributed to the
job in flight), a second plain-release build to tell "panics only with overflow checks"
from "panics in the shipped configuration", and termination decided on logical budgets:
every evaluation runs under a finite ExBudget, so it must stop; the step count implied by
the spent budget must be consistent with that budget.

Hostile workload: open terms (index 0, depth+1, 2^31, 2^63), every builtin applied to every
constant kind, integers of 10^4 bits, case with huge tags / many branches, constr with
thousands of fields, deep recursion under small budgets, terms decoded from mutated flat
bytes. Compilation: every harvested module of the repository's own test sources, constant
expressions at the boundaries of the optimiser's folding rules, generated modules."""
import json
import sys

import common
import gen_uplc as G
import harvest
import uplc_checks as U
from common import Check, Rng, h
from uplc_ref import builtins as B
from uplc_ref import difftest as D

FOLD_SNIPPETS = [
    ("replicate_byte(10000, 0)", "builtin.replicate_byte(10000, 0)"),
    ("replicate_byte(8192, 0)", "builtin.replicate_byte(8192, 0)"),
    ("replicate_byte(8193, 0)", "builtin.replicate_byte(8193, 0)"),
    ("replicate_byte(-1, 0)", "builtin.replicate_byte(-1, 0)"),
    ("replicate_byte(1, 256)", "builtin.replicate_byte(1, 256)"),
    ("cons_bytearray(256, #\"\")", "builtin.cons_bytearray(256, #\"\")"),
    ("cons_bytearray(255, #\"\")", "builtin.cons_bytearray(255, #\"\")"),
    ("cons_bytearray(-1, #\"\")", "builtin.cons_bytearray(-1, #\"\")"),
    ("index_bytearray(#\"00\", 1)", "builtin.index_bytearray(#\"00\", 1)"),
    ("index_bytearray(#\"\", 0)", "builtin.index_bytearray(#\"\", 0)"),
    ("index_bytearray(#\"00\", 2^64)", "builtin.index_bytearray(#\"00\", 18446744073709551616)"),
    ("index_bytearray(#\"00\", 2^128)", "builtin.index_bytearray(#\"00\", 340282366920938463463374607431768211456)"),
    ("slice_bytearray(2^64, 1, #\"00\")", "builtin.slice_bytearray(18446744073709551616, 1, #\"00\")"),
    ("slice_bytearray(0, 2^64, #\"00\")", "builtin.slice_bytearray(0, 18446744073709551616, #\"00\")"),
    ("slice_bytearray(-1, -1, #\"00\")", "builtin.slice_bytearray(-1, -1, #\"00\")"),
    ("1 / 0", "1 / 0"),
    ("1 % 0", "1 % 0"),
    ("quotient_integer(1, 0)", "builtin.quotient_integer(1, 0)"),
    ("integer_to_bytearray(True, 1, 256)", "builtin.integer_to_bytearray(True, 1, 256)"),
    ("integer_to_bytearray(True, 8193, 0)", "builtin.integer_to_bytearray(True, 8193, 0)"),
    ("integer_to_bytearray(True, 0, -1)", "builtin.integer_to_bytearray(True, 0, -1)"),
    ("shift_bytearray(#\"00\", 2^64)", "builtin.shift_bytearray(#\"00\", 18446744073709551616)"),
    ("rotate_bytearray(#\"00\", -2^64)", "builtin.rotate_bytearray(#\"00\", -18446744073709551616)"),
    ("read_bit(#\"00\", 8)", "builtin.read_bit(#\"00\", 8)"),
    ("read_bit(#\"\", 0)", "builtin.read_bit(#\"\", 0)"),
    ("write_bits(#\"00\", [8], True)", "builtin.write_bits(#\"00\", [8], True)"),
    ("decode_utf8(#\"ff\")", "builtin.decode_utf8(#\"ff\")"),
    ("head_list([])", "builtin.head_list([])"),
    ("un_i_data(b_data(#\"\"))", "builtin.un_i_data(builtin.b_data(#\"\"))"),
    ("constr_data(-1, [])", "builtin.constr_data(-1, [])"),
    ("constr_data(2^64, [])", "builtin.constr_data(18446744073709551616, [])"),
    ("bytearray_to_integer(True, replicate 9000)", "builtin.bytearray_to_integer(True, builtin.replicate_byte(8192, 255))"),
    ("exp_mod_integer(2, -1, 4)", "builtin.exp_mod_integer(2, -1, 4)"),
    ("exp_mod_integer(2, 3, 0)", "builtin.exp_mod_integer(2, 3, 0)"),
    ("huge product", "340282366920938463463374607431768211456 * 340282366920938463463374607431768211456 * 340282366920938463463374607431768211456"),
    ("2^64 - (-2^64)", "18446744073709551616 - -18446744073709551616"),
]


def fold_modules():
    """constant expressions the optimiser will try to fold, in a test, a function and a constant"""
    mods = []
    for label, expr in FOLD_SNIPPETS:
        src = f"use aiken/builtin\n\npub fn f(c: Bool) -> Data {{\n  let r: Data = if c {{ {{\n    let d: Data = {expr}\n    d }} }} else {{ {{\n    let d: Data = 0\n    d }} }}\n  r\n}}\n\ntest t() fail {{\n  {expr} == {expr}\n}}\n"
        mods.append((label, src, [{"kind": "fn", "module": "m", "name": "f", "args": [[{"c": "0", "f": []}], [{"c": "1", "f": []}]]}, {"kind": "test", "module": "m", "name": "t"}]))
        src2 = f"use aiken/builtin\n\nconst k = {expr}\n\ntest t2() fail {{\n  k == k\n}}\n"
        mods.append((label + " (module constant)", src2, [{"kind": "test", "module": "m", "name": "t2"}]))
    return mods


def main():
    a = common.parse_args(sys.argv[1:])
    if not a.no_build:
        common.build(["uplc-run", "aiken-run"])
    chk = Check("C10", "exploration", a.tier)
    if a.tier == "thorough" and not a.no_build:
        common.build(["uplc-run"], profile="plain")
    rng = Rng(chk.seed, 10)
    quick = a.tier != "thorough"
    names = [b["name"] for b in G.builtin_table()]
    scale = 1 if quick else 25

    # ---------- hostile evaluation workload (both build profiles)
    terms = []
    for _ in range(4000 * scale):
        terms.append(("hostile-random", G.gen_term(rng, 2 + rng.below(50), names, 0, bls=True, open_rate=15, encodings=True)))
    kinds = [["con", "integer", str(2**10000)], ["con", "integer", str(-(2**10000))], ["con", "bytestring", "ff" * 9000], ["con", "string", "x" * 3000], ["con", "unit", None], ["con", "bool", True], ["con", ["list", "integer"], [str(2**64)] * 3], ["con", ["pair", "integer", "bytestring"], ["-1", ""]], ["con", "data", {"c": str(2**64 - 1), "f": [{"i": str(2**200)}]}], ["con", "data", {"m": []}], ["con", "g1", G.G1_ZERO], ["con", "g2", G.G2_ZERO], ["lam", ["var", 1]], ["delay", ["error"]], ["constr", 0, []], ["builtin", "addInteger"]]
    table = {b["name"]: b for b in G.builtin_table()}
    for b in names:
        ar = table[b]["arity"]
        fc = table[b]["forces"]
        for _ in range(12 * scale if quick else 60):
            t = ["builtin", b]
            for _ in range(fc):
                t = ["force", t]
            for _ in range(ar):
                t = ["app", t, rng.pick(kinds)]
            terms.append(("builtin-x-every-constant-kind", t))
    for tag in [0, 1, 2**31, 2**32, 2**63 - 1, 2**63, 2**64 - 1]:
        terms.append(("case-huge-tag", ["case", ["constr", min(tag, 2**63 - 1), []], [["con", "unit", None]]]))
        terms.append(("case-huge-tag", ["case", ["con", "integer", str(tag)], [["con", "unit", None]]]))
    terms.append(("case-many-branches", ["case", ["constr", 4999, []], [["con", "integer", str(i)] for i in range(5000)]]))
    terms.append(("constr-many-fields", ["case", ["constr", 0, [["con", "integer", "1"]] * 20000], [["lam", ["var", 1]]]]))
    terms.append(("constr-many-fields", ["case", ["constr", 0, [["con", "integer", "1"]] * 3000], [["builtin", "addInteger"]]]))
    for idx in [0, 1, 2, 2**31, 2**32, 2**63, 2**64 - 1]:
        terms.append(("open-term", ["var", idx]))
        terms.append(("open-term", ["lam", ["var", idx]]))
        terms.append(("open-term", ["delay", ["var", idx]]))
        terms.append(("open-term", ["app", ["lam", ["delay", ["constr", 0, [["var", idx]]]]], ["con", "unit", None]]))
        terms.append(("open-term", ["app", ["lam", ["lam", ["case", ["var", 1], [["var", idx]]]]], ["con", "unit", None]]))
    omega = ["app", ["lam", ["app", ["var", 1], ["var", 1]]], ["lam", ["app", ["var", 1], ["var", 1]]]]
    terms.append(("divergent", omega))
    deep = ["con", "unit", None]
    for _ in range(3000):
        deep = ["app", ["lam", ["var", 1]], deep]
    terms.append(("deep-application", deep))
    jobs = []
    budgets = [None, [10**9, 10**7], [10**6, 10**4], [64100, 500], [0, 0], [1, 1]]
    for i, (fam, t) in enumerate(terms):
        bud = budgets[i % len(budgets)] if fam not in ("divergent",) else [10**9, 10**7]
        j = {"id": len(jobs), "op": "eval", "term": t, "lang": ("v3", "v2", "v1")[i % 3], "pv": 8 + (i % 4), "_fam": fam}
        if bud is not None:
            j["budget"] = bud
        else:
            j["budget"] = [10**10, 10**8]
        jobs.append(j)
    clean = [{k: v for k, v in j.items() if not k.startswith("_")} for j in jobs]
    res_chk = common.run_jobs("uplc-run", clean, per_job_timeout=180, env={"VH_STACK_MB": "8"})
    # the plain release build (no overflow checks: what ships) is exercised in the thorough tier
    res_plain = common.run_jobs("uplc-run", clean, per_job_timeout=180, env={"VH_STACK_MB": "8"}, profile="plain") if a.tier == "thorough" else {}
    for j in jobs:
        fam = j["_fam"]
        chk.count("fam:" + fam)
        w = {"term": j["term"] if G.term_size(j["term"]) < 400 else f"<{fam}: {G.term_size(j['term'])} nodes>", "lang": j["lang"], "pv": j["pv"], "budget": j["budget"], "family": fam}
        bad = False
        for label, res in (("overflow-checked", res_chk), ("plain-release", res_plain)):
            if not res:
                continue
            r = res.get(j["id"], {})
            if "harness_error" in r:
                chk.inconc("harness_error")
                continue
            if "timeout" in r:
                # a finite budget bounds the number of steps: a hang is a termination failure
                chk.violation(f"C10|eval|no-termination-under-finite-budget|{fam}|{label}", {**w, "build": label})
                bad = True
                continue
            if "died" in r:
                chk.violation(f"C10|eval|process-died|{fam}|{label}", {**w, "build": label, "observed": r})
                bad = True
                continue
            if "panic" in r:
                loc = r["panic"].split(" @ ")[-1]
                chk.violation(f"C10|eval|panic|{loc}|{label}", {**w, "build": label, "panic": r["panic"]})
                bad = True
                continue
            # budget sanity: a success never has a negative remainder; what was spent implies a
            # bounded number of steps
            # the cost the public API reports (`EvalResult::cost()` = initial - remaining) must be computable
            # and equal to what was charged: a saturated builtin cost must not overflow it (checked build:
            # panic; plain build: a wrapped, negative cost)
            if "cost_api_panic" in r:
                chk.violation(f"C10|eval|reported-cost-overflows|{label}", {**w, "build": label, "panic": r["cost_api_panic"], "remaining": r.get("remaining")})
                bad = True
            elif "cost_api" in r and (r["cost_api"] != r.get("cost") or min(r["cost_api"]) < 0):
                chk.violation(f"C10|eval|reported-cost-wraps|{label}", {**w, "build": label, "cost_reported_by_api": r["cost_api"], "charged": r.get("cost"), "remaining": r.get("remaining")})
                bad = True
            if "ok" in r and min(r.get("remaining", [0, 0])) < 0:
                chk.violation("C10|eval|success-with-negative-remaining-budget", {**w, "observed": r})
                bad = True
            spent = r.get("cost", [0, 0])
            if spent[1] > j["budget"][1] + 10**7 or spent[0] > j["budget"][0] + 10**11:
                chk.count("spent_far_beyond_budget")
        if not bad:
            chk.held(h([j["term"], j["budget"], j["lang"], j["pv"]]) if G.term_size(j["term"]) < 2000 else h([fam, j["id"]]), sample=w if j["id"] % 2999 == 11 else None)

    # ---------- type-directed boundary arguments per builtin under every semantics variant (the
    # workload of C04; here only crashes, hangs and deaths are judged). Random constant kinds above
    # rarely give a builtin a well-typed argument at the edge of its domain (e.g. a negative byte
    # for consByteString under the V1/V2 wrapping semantics).
    import uplc_checks as U

    variants = [("v3", 11), ("v2", 11), ("v3", 10), ("v2", 9), ("v1", 8)]
    bres = U.run_tasks([("builtin", n, 250 if quick else 6000, chk.seed + 1, variants, None) for n in U.builtin_names()])
    totals = U.collect(bres, chk, props={"C10"})
    chk.count("fam:builtin-boundary-arguments-x-semantics-variants", totals["cases"])
    # every Integer argument position x every machine-word edge (i64::MIN, 2^63, 2^64 ...): literal-costed
    # counts / widths / indices are narrowed by hand in costing and implementation
    eres = U.run_tasks([("builtin-edges", n, 1 if quick else 6, chk.seed + 2, variants, None) for n in U.builtin_names()])
    etotals = U.collect(eres, chk, props={"C10"})
    chk.count("fam:builtin-integer-edges", etotals["cases"])

    # ---------- terms decoded from mutated flat bytes, then evaluated (shared with C20)
    import c20 as C20

    seeds = [G.gen_term(rng, 2 + rng.below(30), names, 0, encodings=True) for _ in range(60)]
    cres = common.run_jobs("uplc-run", [{"id": i, "op": "codec", "term": t} for i, t in enumerate(seeds)])
    flats = [bytes.fromhex(r["flat"]) for r in cres.values() if "flat" in r]
    djobs = []
    for _ in range(1500 * scale):
        m = rng.pick(flats) if flats else b""
        for _ in range(1 + rng.below(3)):
            m = C20.mutate_bytes(rng, m)
        djobs.append({"id": len(djobs), "op": "decode", "kind": "flat", "bytes": m.hex(), "eval": True})
    dres = common.run_jobs("uplc-run", djobs, per_job_timeout=120, env={"VH_STACK_MB": "8"})
    for j in djobs:
        r = dres.get(j["id"], {})
        chk.count("fam:decoded-mutant")
        if "panic" in r or "died" in r:
            loc = r.get("panic", "died").split(" @ ")[-1]
            chk.violation(f"C10|eval|decoded-mutant|panic|{loc}", {"bytes": j["bytes"], "observed": r})
        elif "timeout" in r:
            chk.violation("C10|eval|decoded-mutant|no-termination-under-finite-budget", {"bytes": j["bytes"]})
        else:
            chk.held(h(j["bytes"]))
            if r.get("eval"):
                chk.count("decoded_mutants_evaluated")

    # ---------- compilation never panics
    cjobs = []
    meta = {}
    for label, src, entries in fold_modules():
        j = {"id": len(cjobs), "op": "compile_eval", "modules": [{"name": "m", "kind": "lib", "src": src}], "tracings": ["silent-all", "verbose-all"], "entries": entries, "detailed": False}
        meta[j["id"]] = ("fold:" + label, src)
        cjobs.append(j)
    mods = harvest.typechecking_modules()
    chk.count("harvested_modules_compiled", len(mods))
    for origin, src, tests, vals in mods:
        entries = [{"kind": "test", "module": "m", "name": t} for t in tests] + [{"kind": "validator", "module": "m", "name": v, "args": [[]]} for v in vals]
        if not entries:
            continue
        j = {"id": len(cjobs), "op": "compile_eval", "modules": [{"name": "m", "kind": "validator", "src": src}], "tracings": ["silent-all", "verbose-all"] if len(cjobs) % 4 == 0 else ["verbose-all"], "entries": entries, "detailed": False}
        meta[j["id"]] = ("harvest:" + origin, src)
        cjobs.append(j)
    cres = common.run_jobs("aiken-run", cjobs, per_job_timeout=300)
    for j in cjobs:
        r = cres.get(j["id"], {})
        label, src = meta[j["id"]]
        fam = label.split(":")[0]
        chk.count("compile_fam:" + fam)
        if "died" in r or "timeout" in r or "panic" in r:
            chk.violation(f"C10|compile|driver-{'died' if 'died' in r else 'hung' if 'timeout' in r else 'panic'}|{label if fam == 'fold' else fam}", {"source": src, "observed": {k: v for k, v in r.items() if k != 'runs'}})
            continue
        bad = False
        for run in r.get("runs", []):
            rej = run.get("rejected")
            if rej:
                if rej.get("rejected") == "panic":
                    chk.violation(f"C10|typecheck|panic|{str(rej.get('panic')).split(' @ ')[-1]}", {"source": src, "panic": rej.get("panic")})
                    bad = True
                else:
                    chk.count("rejected_by_type_checker(diagnostic, fine)")
                continue
            for e in run.get("entries", []):
                if "compile_panic" in e:
                    loc = e["compile_panic"].split(" @ ")[-1]
                    head = e["compile_panic"].split(":")[0].split(" @ ")[0][:50]
                    key = f"C10|compile|panic|{loc}|{head}"
                    chk.violation(key, {"source": src, "entry": e.get("name"), "tracing": run.get("tracing"), "panic": e["compile_panic"]})
                    bad = True
                for res in e.get("results", []):
                    if "panic" in res:
                        loc = res["panic"].split(" @ ")[-1]
                        chk.violation(f"C10|eval-of-compiled|panic|{loc}", {"source": src, "entry": e.get("name"), "panic": res["panic"]})
                        bad = True
        if not bad:
            chk.held(h(["compile", src]), sample={"compiled": label, "source": src[:300]} if j["id"] % 131 == 3 else None)
    if not quick:
        # sanitizer lanes: Miri on hostile terms over the pure machine paths, valgrind
        # memcheck on the FFI builtins with hostile lengths
        import lanes

        lanes.miri(chk, "C10", "hostile", [chk.seed * 100 + i for i in range(16)], 40)
        lanes.valgrind(chk, "C10", "ffi-builtins", lanes.ffi_jobs(Rng(chk.seed, 1010), 300))
    chk.assumptions = [
        "drivers are built with overflow checks + debug assertions on the crates under test; the hostile evaluation workload is repeated on a plain release build (profile `plain`) and the build is part of the violation key",
        "termination is decided on logical budgets: every evaluation has a finite ExBudget; a watchdog firing under a finite budget is a termination failure",
    ]
    chk.finish(
        rule="hostile UPLC terms (50% sabotage: open indices 0/depth+1/2^31/2^63, every builtin x every constant kind incl. 10^4-bit integers, huge case tags, 5000 branches, 20000 constr fields, divergent and 3000-deep terms) under six budgets from (0,0) to large x 3 languages x 4 protocol versions x 2 build profiles; terms decoded from mutated flat bytes; compilation of constant expressions at every folding boundary (in a function, a test and a module constant) and of every harvested module; distinct = hash(term, budget, configuration)",
        floor={"evaluations": 5000, "harvested_modules_compiled": 100, "decoded_mutants_evaluated": 20},
    )


if __name__ == "__main__":
    main()
