#!/usr/bin/env python3
"""C01 — compiled code computes what the Aiken source means.

Oracle: the definitional interpreter of oracles/aiken_ref evaluates the *generator's own
AST* (strict call-by-value, first-match `when`, floor division/modulo, short-circuit
booleans, structural equality, an independent type->Data model, abort on fail / todo /
failed expect / partial builtin); the compiled program is run by the real toolchain with
the arguments passed at run time as Data (nothing is constant-folded away). Verdict per
case: same Data value, or both abort. The default generator stream avoids the shapes of
recorded findings so that new disagreements stand out; a second stream re-enables them
and attributes each disagreement to its finding (call-by-need, known shape tags)."""
import sys

import aiken_checks as A
import common
from common import Check, h

ABORTS_OK = {"EvaluationFailure", "DivideByZero", "EmptyList", "DeserialisationError", "ByteStringOutOfBounds", "OutsideByteBounds", "OverflowError", "OutsideNaturalBounds", "Utf8", "ByteStringConsNotAByte", "ReadBitOutOfBounds", "WriteBitsOutOfBounds", "EmptyByteArray", "IntegerToByteStringNegativeInput", "IntegerToByteStringNegativeSize", "IntegerToByteStringSizeTooBig", "IntegerToByteStringSizeTooSmall", "ReplicateByteNegativeSize", "ReplicateByteSizeTooBig", "ExpModIntegerNoInverse"}


def judge(chk, stream, seed, n_args, opts, cases, res):
    import drv
    import run_c01

    for c in cases:
        if "gen_error" in c:
            chk.inconc("generator-error")
            continue
        r = res.get(c.get("job"), {})
        w0 = {"stream": stream, "seed": seed, "module_index": c["index"], "source": c["src"]}
        if "runs" not in r:
            if "timeout" in r:
                chk.inconc("watchdog")
            else:
                chk.violation("C01|driver-died-compiling-or-running", {**w0, "observed": r})
            continue
        for run in r["runs"]:
            if "rejected" in run:
                rej = run["rejected"]
                if rej.get("rejected") == "panic":
                    chk.violation("C01|typecheck-panic", {**w0, "observed": rej})
                else:
                    chk.inconc("module-rejected-by-type-checker")
                continue
            chk.count("modules_compiled")
            for f in c["features"]:
                chk.count("feat:" + f)
            for e, er in zip(c["entries"], run["entries"]):
                if "results" not in er:
                    msg = er.get("compile_panic", "")
                    if not msg:
                        chk.inconc("harness_error")
                        continue
                    known = run_c01.known_compile_panic(msg)
                    loc = msg.split(" @ ")[-1]
                    chk.violation(f"C01|compile-panic|{known or loc}", {**w0, "entry": e["name"], "tracing": run["tracing"], "panic": msg})
                    continue
                for k, got in zip(e["sent"], er["results"]):
                    exp = tuple(e["expected"][k])
                    o = drv.outcome(got)
                    w = {**w0, "entry": e["name"], "args": e["args"][k], "tracing": run["tracing"], "expected": list(exp), "got": got}
                    if exp[0] == "ok" and o[0] == "ok" and o[1] == exp[1]:
                        chk.held(h([stream, c["index"], e["name"], k]), sample=({"source": c["src"], "entry": e["name"], "args": e["args"][k], "result": exp[1]} if (c["index"] * 7 + k) % 2411 == 3 else None))
                        chk.count("agree_value")
                    elif exp[0] == "abort" and o[0] == "abort":
                        chk.held(h([stream, c["index"], e["name"], k]))
                        chk.count("agree_abort")
                        if o[1] in A.STRUCTURAL:
                            chk.count("abort_by_structural_machine_error(C06)")
                    elif o[0] == "other" and "panic" in got:
                        chk.violation(f"C01|evaluator-panic|{got['panic'].split(' @ ')[-1]}", w)
                    elif o[0] == "other":
                        chk.inconc("no-verdict:" + str(list(got)[:1]))
                    else:
                        # exact attribution: a label is returned only when re-interpreting the source under
                        # exactly that recorded deviation reproduces the compiled outcome (aiken_ref.explain)
                        try:
                            label = run_c01.explain(seed, c["index"], n_args, opts, e["name"], k, run["tracing"], got)
                        except Exception as ex:  # classification only
                            label = None
                            chk.count("explain_errors")
                        if label:
                            key = "C01|disagree|" + label
                        elif o[0] == "abort" and o[1] in A.STRUCTURAL:
                            key = "C01|disagree|structural-machine-error|" + o[1]
                        else:
                            key = "C01|disagree|unexplained|" + ("value-vs-abort" if exp[0] != o[0] else "value-differs")
                        chk.violation(key, w)


def main():
    a = common.parse_args(sys.argv[1:])
    if not a.no_build:
        common.build(["aiken-run"])
    chk = Check("C01", "exploration", a.tier)
    quick = a.tier != "thorough"
    n_args = 8 if quick else 32
    n_default = 1500 if quick else 30000
    n_known = 400 if quick else 6000

    def tracing_of(c):
        return [["verbose-all"], ["silent-all"], ["compact-user"]][c["index"] % 3]

    for stream, n, opts, first in (("default", n_default, None, 0), ("known-shapes", n_known, {"allow_hazard": True, "include_known": True, "focus": None}, 0)):
        seed = chk.seed * 2 + (1 if stream != "default" else 0)
        cases = A.generated_cases(seed, n, n_args, opts, first)
        jobs = A.jobs_for_generated(cases, tracing_of)
        res = A.run(jobs)
        judge(chk, stream, seed, n_args, opts, cases, res)
        chk.count("modules_generated:" + stream, len(cases))
    # monomorphisation invariance: one generic function at two instantiation types in one program
    # must agree, at each, with its hand-monomorphised copy (no interpreter involved)
    import mono_templates

    mcases = mono_templates.cases(chk.seed, quick, per_module=2)
    mjobs = A.jobs_for_generated(mcases, lambda c: [["silent-all"], ["verbose-all"]][c["index"] % 2])
    mono_templates.judge(chk, "C01", mcases, A.run(mjobs), A.STRUCTURAL)
    chk.assumptions = [
        "the definitional interpreter and the type->Data model of oracles/aiken_ref are the trusted base (written from the language definition, calibrated on 81 hand-written corner cases); running out of interpreter fuel is inconclusive",
        "grey zones excluded by construction: unused lets whose right-hand side can abort, order of two sibling aborts (only value-vs-abort is compared), trace text",
        "validators' script-context plumbing, opaque types and decorators are exercised by C12/C18/C19, not here",
    ]
    chk.finish(
        rule="type-directed generated modules (3-12 definitions: Int/Bool/ByteArray/String, lists, tuples, pairs, Option, user ADTs incl. generic and recursive, records, lambdas, higher-order and recursive functions, when/if/let/expect, pipes, captures, backpassing, constants, Data casts, 45 builtins; one- and two-module layouts) x 8 (quick) / 32 (thorough) boundary-biased argument tuples per entry passed as run-time Data, under verbose / silent / compact tracing; plus monomorphisation templates (12 representation-sensitive generic bodies x ordered pairs of 14 instantiation types: generic instance vs hand-monomorphised copy); distinct = (stream, module, entry, argument tuple); non-trivial = all",
        floor={"evaluations": 10000, "modules_compiled": 1000, "agree_abort": 300, "monomorphisation_cases": 1000},
    )


if __name__ == "__main__":
    A.in_big_thread(main)
