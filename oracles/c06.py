#!/usr/bin/env python3
"""C06 — well-typed programs cannot go wrong.

Events: the `machine::Error` variant of every evaluation of compiled code whose arguments
inhabit the declared types. Oracle: a classification table. Forbidden (structural):
TypeMismatch, ListTypeMismatch, PairTypeMismatch, NotAConstant, NonFunctionalApplication,
NonPolymorphicInstantiation, BuiltinTermArgumentExpected, UnexpectedBuiltinTermArgument,
OpenTermEvaluated, MissingCaseBranch, NonConstrScrutinized, InvalidStepKind,
MachineNeverReachedDone, and any panic. Allowed: EvaluationFailure (fail / todo / failed
expect), DivideByZero, EmptyList, DeserialisationError and the other partial-builtin
errors, OutOfExError. Workload: G-aiken modules (generics at several instantiations,
recursive types, higher-order functions stored in records, Data casts fed ill-shaped
Data, Pair vs tuple), both streams, under silent and verbose tracing; every unit test and
validator harvested from the repository's test sources; validators from the C12 type
generator applied to conforming parameters and run on conforming / non-conforming
redeemers and datums."""
import json
import os
import sys

import aiken_checks as A
import common
from common import Check, h


def main():
    a = common.parse_args(sys.argv[1:])
    if not a.no_build:
        common.build(["aiken-run"])
    chk = Check("C06", "exploration", a.tier)
    quick = a.tier != "thorough"
    n_args = 8 if quick else 24
    err_seen = {}

    def judge(res, w, label):
        """one evaluation result"""
        if "panic" in res:
            chk.violation(f"C06|panic|{res['panic'].split(' @ ')[-1]}|{label}", {**w, "panic": res["panic"]})
            return
        if "err" in res:
            err_seen[res["err"]] = err_seen.get(res["err"], 0) + 1
            if res["err"] in A.STRUCTURAL:
                chk.violation(f"C06|structural-error|{res['err']}|{label}", {**w, "error": res["err"], "message": res.get("err_msg")})
                return
            chk.count("allowed_failures")
        else:
            chk.count("successes")
        chk.held(w["hash"], sample=w if chk.evaluations % 4999 == 77 else None)

    streams = [("default", 1200 if quick else 25000, None), ("known-shapes", 300 if quick else 5000, {"allow_hazard": True, "include_known": True, "focus": None})]
    for stream, n, opts in streams:
        seed = chk.seed * 2 + (1 if stream != "default" else 0) + 100
        cases = A.generated_cases(seed, n, n_args, opts)
        jobs = A.jobs_for_generated(cases, lambda c: [["verbose-all"], ["silent-all"]][c["index"] % 2], detailed=True)
        res = A.run(jobs, timeout=600)
        for c in cases:
            if "gen_error" in c:
                continue
            r = res.get(c.get("job"), {})
            if "runs" not in r or "rejected" in r["runs"][0]:
                chk.inconc("no-runs-or-rejected")
                continue
            run = r["runs"][0]
            tags = sorted(f for f in c["features"] if f.startswith("known:"))
            label = "+".join(tags) if tags else "untagged"
            chk.count("modules")
            for e, er in zip(c["entries"], run["entries"]):
                if "results" not in er:
                    chk.count("compile_panics(C10)")
                    continue
                for k, got in zip(e["sent"], er["results"]):
                    judge(got, {"hash": h([stream, c["index"], e["name"], k]), "origin": f"g-aiken:{stream}:{seed}:{c['index']}", "source": c["src"], "entry": e["name"], "args": e["args"][k], "tracing": run["tracing"]}, label)
    hjobs, meta = A.jobs_for_harvested(lambda c: [["verbose-all"], ["silent-all"]][c["index"] % 2], detailed=True, limit=None if not quick else 300)
    res = A.run(hjobs, timeout=600)
    for j in hjobs:
        r = res.get(j["id"], {})
        m = meta[j["id"]]
        if "runs" not in r or "rejected" in r["runs"][0]:
            chk.inconc("no-runs-or-rejected")
            continue
        run = r["runs"][0]
        for ent, er in zip(j["entries"], run["entries"]):
            if ent["kind"] != "test" or "results" not in er:
                continue
            judge(er["results"][0], {"hash": h(["harvest", m["origin"], ent["name"]]), "origin": "harvest:" + m["origin"], "source": m["src"], "entry": ent["name"], "tracing": run["tracing"]}, "harvested")
            chk.count("harvested_tests")
    # one generic function instantiated at two representations in one program (total templates:
    # any abort is reported, a structural one is a violation)
    import mono_templates

    mcases = mono_templates.cases(chk.seed, quick, per_module=2)
    mjobs = A.jobs_for_generated(mcases, lambda c: [["verbose-all"], ["silent-all"]][c["index"] % 2])
    mono_templates.judge(chk, "C06", mcases, A.run(mjobs, timeout=600), A.STRUCTURAL)
    # negative typing: Data reaching a typed slot without `expect`, one template per syntactic position;
    # the checker must refuse (an acceptance is compiled and run on Data of the wrong kind)
    import illtyped_templates

    ijobs = illtyped_templates.jobs()
    ires = A.run([{k: v for k, v in j.items() if not k.startswith("_")} for j in ijobs], timeout=300)
    illtyped_templates.judge(chk, "C06", ijobs, ires, A.STRUCTURAL)
    for k, v in err_seen.items():
        chk.count("err:" + k, v)
    chk.assumptions = [
        "arguments inhabit the declared parameter types (type-directed generation; encodings from the independent type->Data model); Data parameters additionally receive ill-shaped Data, which may only fail in the allowed class",
        "whether the *value* is right is C01's business; C06 only classifies failures",
    ]
    chk.finish(
        rule="every evaluation of compiled well-typed code in the G-aiken streams (entries x argument tuples, silent and verbose) of harvested unit tests, and of the monomorphisation templates (generic function at two instantiation types per program); distinct = (module, entry, argument tuple)",
        floor={"evaluations": 10000, "allowed_failures": 300, "harvested_tests": 50, "downcast_without_expect_programs": 40},
    )


if __name__ == "__main__":
    A.in_big_thread(main)
