#!/usr/bin/env python3
"""C12 — blueprint schemas describe exactly what validators accept (see schema_ref/)."""
import os
import sys

sys.path.insert(0, os.path.join(os.path.dirname(os.path.abspath(__file__)), "schema_ref"))
import wrap
from schema_ref import run_c12  # noqa: E402

if __name__ == "__main__":
    wrap.run_component(
        "C12", "exploration", run_c12.run,
        rule="generated modules of 4-10 type definitions (ADTs, records, generics instantiated, recursive, lists/tuples/pairs/maps, Option, Bool, Data, aliases, @tag/@list decorators); per type: model-generated conforming values and near-miss mutants (32 mutation kinds) plus random Data; four judges per (type, value): Parameter::validate on the generated schema, the compiled `expect`, an independent Python model of the type, and an independent reader of the published schema JSON; distinct = (type shape, value) pairs as counted by the component",
        floor={"evaluations": 20000, "types": 200},
        assumptions=[
            "the Python type->Data model (schema_ref/model.py) and the reader of the published JSON (schema_ref/jsonschema_read.py) are the trusted base; both were written from the documentation, not from the compiler",
            "a module the type checker rejects is inconclusive, never a violation",
        ],
    )
