"""Shape-closure oracle for builtin costing (C05, monitor 3b).

The ledger's cost-model language is a closed set of function families over the argument
sizes (constant, linear in one argument, added / subtracted-with-minimum / multiplied /
min / max sizes, linear on the diagonal, constant above / below the diagonal with a
sub-model, quadratic forms with a minimum, literal-or-linear, ...). Whatever the
parameter vector says, the cost the machine charges for one builtin under one
configuration must be *some* member of that set as a function of the (independently
measured) argument sizes. This module decides, by exact rational linear algebra, whether
a table {size tuple -> cost} is consistent with at least one family the specification
uses for that dimension (memory functions are drawn from a much smaller set than cpu
functions). A costing bug that leaves the language (an absolute value, a swapped
subtraction, a forgotten minimum on the memory side, a wrong region test) has no fit.
It does not pin coefficients: that is what the upstream budget goldens do."""
from fractions import Fraction


def _consistent(rows, rhs):
    """is A p = b solvable? exact Gaussian elimination over Fractions"""
    if not rows:
        return True
    n = len(rows[0])
    m = [[Fraction(v) for v in r] + [Fraction(b)] for r, b in zip(rows, rhs)]
    r = 0
    for c in range(n):
        piv = next((i for i in range(r, len(m)) if m[i][c] != 0), None)
        if piv is None:
            continue
        m[r], m[piv] = m[piv], m[r]
        pv = m[r][c]
        m[r] = [v / pv for v in m[r]]
        for i in range(len(m)):
            if i != r and m[i][c] != 0:
                f = m[i][c]
                m[i] = [a - f * b for a, b in zip(m[i], m[r])]
        r += 1
        if r == len(m):
            break
    return all(any(v != 0 for v in row[:-1]) or row[-1] == 0 for row in m)


def _fit_basis(points, basis):
    """points: [(args tuple, cost)]; basis: list of functions args -> number"""
    return _consistent([[f(a) for f in basis] for a, _ in points], [c for _, c in points])


ONE = lambda a: 1

BASE2 = {
    "constant": [ONE],
    "linear_in_x": [ONE, lambda a: a[0]],
    "linear_in_y": [ONE, lambda a: a[1]],
    "linear_in_x_and_y": [ONE, lambda a: a[0], lambda a: a[1]],
    "added_sizes": [ONE, lambda a: a[0] + a[1]],
    "multiplied_sizes": [ONE, lambda a: a[0] * a[1]],
    "min_size": [ONE, lambda a: min(a[0], a[1])],
    "max_size": [ONE, lambda a: max(a[0], a[1])],
}
CPU2_EXTRA = {
    "with_interaction": [ONE, lambda a: a[0], lambda a: a[1], lambda a: a[0] * a[1]],
    "quadratic_in_y": [ONE, lambda a: a[1], lambda a: a[1] ** 2],
    "quadratic_in_x_and_y": [ONE, lambda a: a[0], lambda a: a[1], lambda a: a[0] ** 2, lambda a: a[0] * a[1], lambda a: a[1] ** 2],
}


def _fit_with_minimum(points, basis):
    """cost = max(minimum, poly): points at the observed minimum may be clamped"""
    if _fit_basis(points, basis):
        return True
    cmin = min(c for _, c in points)
    free = [(a, c) for a, c in points if c > cmin]
    return len(free) >= len(basis) + 2 and _fit_basis(free, basis)


def _subtracted(points):
    for m in (0, 1, 2, 3, 4, 8):
        if _fit_basis(points, [ONE, lambda a, m=m: max(m, a[0] - a[1])]):
            return True
    return False


def fit2(points, dimension):
    """-> name of a fitting two-argument family, or None"""
    fams = dict(BASE2)
    if dimension == "cpu":
        fams.update(CPU2_EXTRA)
    for name, basis in fams.items():
        if (_fit_with_minimum if name.startswith("quadratic_in_x_and") else _fit_basis)(points, basis):
            return name
    if _subtracted(points):
        return "subtracted_sizes"
    # piecewise families
    diag = [(a, c) for a, c in points if a[0] == a[1]]
    off = [(a, c) for a, c in points if a[0] != a[1]]
    if len({c for _, c in off}) <= 1 and _fit_basis(diag, [ONE, lambda a: a[0]]):
        return "linear_on_diagonal"
    if dimension == "cpu":
        above = [(a, c) for a, c in points if a[0] < a[1]]
        rest = [(a, c) for a, c in points if a[0] >= a[1]]
        if len({c for _, c in above}) <= 1 and rest and _fit_submodel(rest):
            return "const_above_diagonal"
        below = [(a, c) for a, c in points if a[0] > a[1]]
        rest = [(a, c) for a, c in points if a[0] <= a[1]]
        if len({c for _, c in below}) <= 1 and rest and _fit_submodel(rest):
            return "const_below_diagonal"
        swapped = [((max(a), min(a)), c) for a, c in points]
        if _fit_submodel(swapped):
            return "above_and_below_diagonal"
    return None


def _fit_submodel(points):
    fams = dict(BASE2)
    fams.update(CPU2_EXTRA)
    for name, basis in fams.items():
        if (_fit_with_minimum if name.startswith("quadratic_in_x_and") else _fit_basis)(points, basis):
            return True
    return _subtracted(points)


def fit1(points, dimension):
    for name, basis in (("constant", [ONE]), ("linear", [ONE, lambda a: a[0]]), ("quadratic", [ONE, lambda a: a[0], lambda a: a[0] ** 2])):
        if name == "quadratic" and dimension == "mem":
            continue
        if _fit_basis(points, basis):
            return name
    return None


def fit3(points, dimension):
    x, y, z = (lambda a: a[0]), (lambda a: a[1]), (lambda a: a[2])
    fams = {
        "constant": [ONE], "linear_in_x": [ONE, x], "linear_in_y": [ONE, y], "linear_in_z": [ONE, z],
        "added_sizes": [ONE, lambda a: a[0] + a[1] + a[2]], "linear_in_max_yz": [ONE, lambda a: max(a[1], a[2])],
        "linear_in_y_and_z": [ONE, y, z],
    }
    if dimension == "cpu":
        fams["quadratic_in_z"] = [ONE, z, lambda a: a[2] ** 2]
    for name, basis in fams.items():
        if _fit_basis(points, basis):
            return name
    # literal in y or linear in z: y == 0 -> linear in z, else cost == y
    zero = [(a, c) for a, c in points if a[1] == 0]
    nonzero = [(a, c) for a, c in points if a[1] != 0]
    if all(c == a[1] for a, c in nonzero) and _fit_basis(zero, [ONE, z]):
        return "literal_in_y_or_linear_in_z"
    if dimension == "cpu":
        # expMod: c00 + c11*y*z + c12*y*z^2, times 3/2 when x > z
        lo = [(a, c) for a, c in points if a[0] <= a[2]]
        hi = [(a, c) for a, c in points if a[0] > a[2]]
        b = [ONE, lambda a: a[1] * a[2], lambda a: a[1] * a[2] ** 2]
        if _fit_basis(lo, b) and (not hi or len(hi) < 4 or True):
            return "exp_mod"
    return None


def fit(points, dimension):
    """points: [(size tuple, cost)] with size tuples of equal arity"""
    if not points:
        return "no-data"
    ar = len(points[0][0])
    if ar == 0:
        return "constant" if len({c for _, c in points}) == 1 else None
    if ar == 1:
        return fit1(points, dimension)
    if ar == 2:
        return fit2(points, dimension)
    if ar == 3:
        return fit3(points, dimension)
    # 4+ arguments: constant, or linear in one of the arguments
    if len({c for _, c in points}) == 1:
        return "constant"
    for i in range(ar):
        if _fit_basis(points, [ONE, lambda a, i=i: a[i]]):
            return f"linear_in_arg{i}"
    return None
