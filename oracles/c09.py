#!/usr/bin/env python3
"""C09 — builds are deterministic.

Histories compared (all must be byte-identical):
  * N in-process rebuilds of the same project (every Project gets freshly seeded HashMaps),
    rebuilds in separate processes, RAYON_NUM_THREADS in {1, 2, 16};
  * project copies on tmpfs whose files were created in permuted orders (readdir order on
    tmpfs follows creation order, so walkdir discovery order really changes);
  * fresh CodeGenerator per entry vs one generator re-used across all tests / functions /
    validators of a module, in several entry orders, with module constants referenced
    before / after / never being compiled first (cached-constant delta replay);
  * invariant at hook H4: after every generate / generate_raw the per-program mutable state
    of the generator equals that of a brand-new one."""
import hashlib
import json
import os
import sys

import aiken_checks as A
import common
import harvest
import projgen
from common import Check, Rng, h


def strip_compiler_version(bp_text):
    return bp_text


def main():
    a = common.parse_args(sys.argv[1:])
    if not a.no_build:
        common.build(["project-run", "aiken-run"])
    chk = Check("C09", "exploration", a.tier)
    rng = Rng(chk.seed, 9)
    quick = a.tier != "thorough"
    root = projgen.scratch_root()
    try:
        # ------------------------------------------------ projects
        projects = []
        for n in range(3 if quick else 10):
            projects.append((f"gen{n}", projgen.generated_project(rng, n, modules=2 + rng.below(3), unit=3, prop=1, failing=False, plutus="v3")))
        acc = [p for p in projgen.acceptance_projects() if any(k.startswith("validators/") for k in p[1])]
        for name, files in acc:
            projects.append((f"acceptance_{name}", files))
        chk.count("projects_with_validators", len(projects))
        variants = []  # (project index, label, path, env)
        for pi, (name, files) in enumerate(projects):
            paths = sorted(files)
            orders = [("sorted", paths), ("reversed", list(reversed(paths)))] + [(f"shuffled{k}", rng.shuffle(paths)) for k in range(1 if quick else 4)]
            for label, order in orders:
                p = projgen.materialise(files, os.path.join(root, f"{name}-{label}"), order)
                variants.append((pi, f"creation-order:{label}", p))
        jobs = []
        meta = {}
        for pi, label, path in variants:
            for rep in range(2 if quick else 4):  # same process, rebuilt
                j = {"id": len(jobs), "op": "build", "root": path, "tracing": "silent-all"}
                meta[j["id"]] = (pi, label, f"in-process-rebuild#{rep}")
                jobs.append(j)
        results = {}
        for threads in (1, 2, 16):
            # shards = separate processes; each job list is also replayed per thread count
            res = common.run_jobs("project-run", jobs, shards=min(len(jobs), 8), env={"RAYON_NUM_THREADS": str(threads)}, per_job_timeout=600)
            for j in jobs:
                results[(j["id"], threads)] = res.get(j["id"], {})
        base = {}
        for (jid, threads), r in sorted(results.items()):
            pi, label, rep = meta[jid]
            name = projects[pi][0]
            w = {"project": name, "history": [label, rep, f"threads={threads}"]}
            if "harness_error" in r or "timeout" in r:
                chk.inconc("harness_error" if "harness_error" in r else "watchdog")
                continue
            if "panic" in r or "died" in r:
                chk.violation(f"C09|build-crash|{name}", {**w, "observed": r})
                continue
            if "errors" in r:
                chk.inconc("project-does-not-build")
                continue
            text = r["blueprint_text"]
            digest = hashlib.sha256(text.encode()).hexdigest()
            if pi not in base:
                base[pi] = (digest, text, w["history"])
                chk.held(h(["base", name]), sample={"project": name, "blueprint_sha256": digest, "validators": [v.get("title") for v in r["blueprint"].get("validators", [])]} if len(chk.samples) < 3 else None)
                chk.count("validators_in_blueprints", len(r["blueprint"].get("validators", [])))
                continue
            if digest != base[pi][0]:
                # locate the first differing line
                a_lines = base[pi][1].splitlines()
                b_lines = text.splitlines()
                first = next((i for i, (x, y) in enumerate(zip(a_lines, b_lines)) if x != y), min(len(a_lines), len(b_lines)))
                what = "hash" if '"hash"' in (a_lines[first] if first < len(a_lines) else "") else "compiledCode" if "compiledCode" in (a_lines[first] if first < len(a_lines) else "") else "other"
                chk.violation(f"C09|blueprint-differs-between-histories|{what}", {**w, "baseline_history": base[pi][2], "first_differing_line": [a_lines[first][:200] if first < len(a_lines) else None, b_lines[first][:200] if first < len(b_lines) else None]})
            else:
                chk.held(h([name, label, rep, threads]))
                chk.count("identical_blueprints")
        # ------------------------------------------------ fresh vs re-used code generator
        import re

        subjects = []  # (origin, modules, entries)
        for name, files in projects[: (3 if quick else 10)]:
            if not name.startswith("gen"):
                continue
            modules = [{"name": "fz", "kind": "lib", "src": files["lib/fz.ak"]}, {"name": "shared", "kind": "lib", "src": files["lib/shared.ak"]}]
            entries = []
            for rel in sorted(files):
                if rel.startswith("lib/tests_"):
                    mn = os.path.basename(rel)[:-3]
                    modules.append({"name": mn, "kind": "lib", "src": files[rel]})
                    entries += [{"kind": "test", "module": mn, "name": t} for t in re.findall(r"^test (unit_\w+)\(\)", files[rel], re.M)]
                elif rel.startswith("validators/"):
                    mn = os.path.basename(rel)[:-3]
                    modules.append({"name": mn, "kind": "validator", "src": files[rel]})
                    entries += [{"kind": "validator", "module": mn, "name": v, "args": []} for v in re.findall(r"^validator (\w+)", files[rel], re.M)]
            subjects.append((name, modules, entries))
        for c in A.generated_cases(chk.seed, 120 if quick else 1500, 1):
            if "gen_error" in c or len(c["entries"]) < 2:
                continue
            subjects.append((f"g-aiken#{c['index']}", c["modules"], [{"kind": "fn", "module": "m", "name": e["name"], "args": []} for e in c["entries"]]))
        # hand-written subjects whose entries contain near-identical pieces (the same multi-line
        # `expect` / trace / error text at different indentation, the same constants and helper
        # calls): anything a generator keeps from one program can leak into the next
        near = [
            "pub fn first(x: Option<Int>) -> Data {\n  expect Some(a): Option<Int> =\n    x\n  let r: Data = a\n  r\n}\n\npub fn second(x: Option<Int>, b: Bool) -> Data {\n  let r: Data =\n    if b {\n      expect Some(a): Option<Int> =\n        x\n      a\n    } else {\n      0\n    }\n  r\n}\n\npub fn third(x: Option<Int>) -> Data {\n  let f =\n    fn(y) {\n      expect Some(a): Option<Int> =\n          y\n      a\n    }\n  let r: Data = f(x)\n  r\n}\n",
            "pub type T { A { x: Int, y: ByteArray }  B }\n\npub fn p(d: Data) -> Data {\n  expect A { x, .. }: T =\n    d\n  let r: Data = x\n  r\n}\n\npub fn q(d: Data, b: Bool) -> Data {\n  let r: Data =\n    when b is {\n      True -> {\n        expect A { x, .. }: T =\n          d\n        x\n      }\n      False -> 1\n    }\n  r\n}\n",
            "const k: List<Int> = [1, 2, 3]\n\nfn sum(xs: List<Int>) -> Int {\n  when xs is {\n    [] -> 0\n    [x, ..rest] -> x + sum(rest)\n  }\n}\n\npub fn a(n: Int) -> Data {\n  trace @\"same   message\"\n  let r: Data = sum(k) + n\n  r\n}\n\npub fn b(n: Int) -> Data {\n  trace @\"same message\"\n  let r: Data = sum(k) - n\n  r\n}\n\npub fn c(n: Int) -> Data {\n  let r: Data = if n > 0 { fail @\"same   message\" } else { sum(k) }\n  r\n}\n",
        ]
        for ni, src in enumerate(near):
            names = re.findall(r"^pub fn (\w+)\(", src, re.M)
            subjects.append((f"near-identical#{ni}", [{"name": "m", "kind": "lib", "src": src}], [{"kind": "fn", "module": "m", "name": n, "args": []} for n in names]))
        chk.count("generator_history_subjects", len(subjects))
        gjobs = []
        gmeta = {}
        for mi, (origin, modules, entries) in enumerate(subjects):
            orders = [("as-written", entries), ("reversed", list(reversed(entries))), ("shuffled", rng.shuffle(entries)), ("doubled", entries + entries)]
            for olabel, order in orders:
                for reuse in (True, False):
                    if olabel != "as-written" and not reuse:
                        continue
                    j = {"id": len(gjobs), "op": "compile_eval", "modules": modules, "tracings": ["silent-all", "verbose-all", "compact-user"], "entries": order, "emit_hex": True, "detailed": False, "reuse_generator": reuse}
                    gmeta[j["id"]] = (mi, olabel, reuse)
                    gjobs.append(j)
        gres = A.run(gjobs)
        ref = {}
        fresh_state = None
        for j in gjobs:
            mi, olabel, reuse = gmeta[j["id"]]
            origin, src = subjects[mi][0], "\n".join(m["src"] for m in subjects[mi][1] if m["name"] not in ("fz",))
            r = gres.get(j["id"], {})
            if "runs" not in r or "entries" not in r["runs"][0]:
                chk.inconc("module-not-compiled")
                continue
            for run, e in [(run, e) for run in r["runs"] if "entries" in run for e in run["entries"]]:
                if "hex" not in e:
                    if "compile_panic" in e:
                        chk.count("compile_panics(C10)")
                    continue
                key = (mi, run["tracing"], e["kind"], e.get("module"), e["name"])
                w = {"module": origin, "source": src, "entry": e["name"], "tracing": run["tracing"], "history": [f"order={olabel}", "re-used generator" if reuse else "fresh generator per entry"]}
                # H4: state after == state of a brand-new generator (cached constants, index 6, are kept by design)
                before, after = e.get("gen_state_before"), e.get("gen_state_after")
                if fresh_state is None and not reuse:
                    fresh_state = before[:6]
                if after is not None and fresh_state is not None and after[:6] != fresh_state:
                    chk.violation("C09|generator-state-not-reset-after-generate", {**w, "state_after": after, "fresh_state": fresh_state, "fields": ["defined_functions", "code_gen_functions", "cyclic_functions", "special_functions.used", "interner counter", "id_gen", "cached_constants"]})
                chk.count("generator_state_checks")
                if key not in ref:
                    ref[key] = (e["hex"], w["history"])
                    continue
                if e["hex"] != ref[key][0]:
                    chk.violation("C09|program-differs-with-generator-history", {**w, "baseline_history": ref[key][1], "hex_lengths": [len(ref[key][0]), len(e["hex"])]})
                else:
                    chk.held(h([origin, e["name"], olabel, reuse]))
                    chk.count("identical_programs_across_generator_histories")
    finally:
        projgen.cleanup()
    chk.assumptions = [
        "what is compared is the serialised blueprint (plutus.json text) and the hex of every generated program; HashMap seeds differ between processes and between Project instances of one process (std RandomState)",
        "registration-order permutation is exercised through file discovery order (tmpfs creation order) and entry order; dependency order is left to the project's own sequencing",
    ]
    chk.finish(
        rule="generated multi-module projects (constants, generic hoisted functions, parameterised validators, V2 and V3) and the dependency-free acceptance projects with validators x file-creation orders x in-process rebuilds x processes x thread counts; harvested modules x entry orders (as written, reversed, shuffled, doubled) x fresh/re-used generator; distinct = (subject, history)",
        floor={"identical_blueprints": 50, "identical_programs_across_generator_histories": 100, "generator_state_checks": 200},
    )


if __name__ == "__main__":
    main()
