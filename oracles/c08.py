#!/usr/bin/env python3
"""C08 — script bytes, hashes and addresses survive every tool round trip.

Monitors (all on real executions of the repository's codecs):
  * decode(encode(p)) == p (by value, on the harness' own JSON rendering) and
    encode(decode(encode(p))) == encode(p) bit for bit, for flat / CBOR / hex and the
    Name / NamedDeBruijn / DeBruijn / FakeNamedDeBruijn binder forms;
  * the CBOR wrapper is re-computed in Python from the flat bytes;
  * the published hash is re-computed in Python: blake2b-224(version tag || cbor);
  * the address is re-computed in Python (header || hash [|| delegation]) incl. bech32;
  * serde round trip of SerializableProgram recovers program and Plutus version, and
    saving again gives the same JSON (load -> save fixpoint);
  * bytes of compiler output (corpus) re-encode bit for bit through every form and
    through the textual form."""
import hashlib
import json
import os
import sys

import common
import gen_uplc as G
from common import Check, Rng, h, norm

CHARSET = "qpzry9x8gf2tvdw0s3jn54khce6mua7l"


def bech32_polymod(values):
    gen = [0x3B6A57B2, 0x26508E6D, 0x1EA119FA, 0x3D4233DD, 0x2A1462B3]
    chk = 1
    for v in values:
        b = chk >> 25
        chk = (chk & 0x1FFFFFF) << 5 ^ v
        for i in range(5):
            chk ^= gen[i] if ((b >> i) & 1) else 0
    return chk


def bech32_encode(hrp, data):
    acc = 0
    bits = 0
    five = []
    for b in data:
        acc = (acc << 8) | b
        bits += 8
        while bits >= 5:
            bits -= 5
            five.append((acc >> bits) & 31)
    if bits:
        five.append((acc << (5 - bits)) & 31)
    hrpx = [ord(c) >> 5 for c in hrp] + [0] + [ord(c) & 31 for c in hrp]
    pm = bech32_polymod(hrpx + five + [0] * 6) ^ 1
    chk = [(pm >> 5 * (5 - i)) & 31 for i in range(6)]
    return hrp + "1" + "".join(CHARSET[d] for d in five + chk)


def cbor_bytes_header(n):
    if n < 24:
        return bytes([0x40 + n])
    if n < 256:
        return bytes([0x58, n])
    if n < 65536:
        return bytes([0x59]) + n.to_bytes(2, "big")
    if n < 2**32:
        return bytes([0x5A]) + n.to_bytes(4, "big")
    return bytes([0x5B]) + n.to_bytes(8, "big")


def has_bls(t):
    s = json.dumps(t)
    return '"g1"' in s or '"g2"' in s or '"ml"' in s


def check_serde(chk, facts, witness, prefix):
    """hash / address / serde facts for the three Plutus versions."""
    ok = True
    cbor = bytes.fromhex(facts["cbor"])
    for tag, label in ((1, "v1"), (2, "v2"), (3, "v3")):
        o = facts.get(label, {})
        want_hash = hashlib.blake2b(bytes([tag]) + cbor, digest_size=28).hexdigest()
        js = o.get("json", {})
        if js.get("compiledCode") != facts["cbor"]:
            ok &= not chk.violation(f"{prefix}|compiledCode-differs-from-cbor|{label}", {**witness, "json": js})
        if js.get("hash") != want_hash:
            ok &= not chk.violation(f"{prefix}|published-hash-is-not-blake2b224(tag||code)|{label}", {**witness, "json": js, "want": want_hash})
        if o.get("recovered") != label:
            ok &= not chk.violation(f"{prefix}|plutus-version-not-recovered|{label}", {**witness, "observed": {k: v for k, v in o.items() if k != "addresses"}})
        if o.get("program_eq") is not True or o.get("resave_eq") is not True:
            ok &= not chk.violation(f"{prefix}|load-save-not-a-fixpoint|{label}", {**witness, "observed": {k: v for k, v in o.items() if k != "addresses"}})
        for key, a in o.get("addresses", {}).items():
            net, deleg = key.split("-")
            netid = 1 if net == "mainnet" else 0
            if deleg == "none":
                raw = bytes([0x70 | netid]) + bytes.fromhex(want_hash)
            elif deleg == "key":
                raw = bytes([0x10 | netid]) + bytes.fromhex(want_hash) + b"\x11" * 28
            else:
                raw = bytes([0x30 | netid]) + bytes.fromhex(want_hash) + b"\x22" * 28
            if a.get("bytes") != raw.hex():
                ok &= not chk.violation(f"{prefix}|address-bytes|{label}|{key}", {**witness, "got": a, "want": raw.hex()})
            want_b32 = bech32_encode("addr" if netid else "addr_test", raw)
            if a.get("bech32") != want_b32:
                ok &= not chk.violation(f"{prefix}|address-bech32|{label}|{key}", {**witness, "got": a, "want": want_b32})
            chk.count("addresses_checked")
        chk.count("hashes_checked")
    return ok


def main():
    a = common.parse_args(sys.argv[1:])
    if not a.no_build:
        common.build(["uplc-run", "aiken-run"])
    chk = Check("C08", "exploration", a.tier)
    rng = Rng(chk.seed, 8)
    quick = a.tier != "thorough"
    names = [b["name"] for b in G.builtin_table()]
    jobs = []

    def add(term, version=(1, 1, 0), kind="random"):
        jobs.append({"id": len(jobs), "op": "codec", "term": term, "version": list(version), "_k": kind})
        jobs.append({"id": len(jobs), "op": "hash", "term": term, "version": list(version), "_k": kind})

    # constants at the codec's boundaries
    for n in [0, 1, 63, 64, 65, 254, 255, 256, 257, 510, 511, 1000, 70000]:
        add(["con", "bytestring", ("ab" * n)], kind="bytes-chunks")
        add(["con", "data", {"b": "cd" * n}], kind="bytes-chunks")
    for v in G.BOUNDARY_INTS:
        add(["con", "integer", str(v)], kind="ints")
        add(["con", "data", {"i": str(v)}], kind="ints")
        add(["con", "data", {"i": str(v), "enc": "big"}], kind="ints")
    for s in G.STRINGS:
        add(["con", "string", s], kind="strings")
    for tag in G.CONSTR_TAGS:
        for indef in (True, False):
            add(["con", "data", {"c": str(tag), "f": [{"l": [], "indef": indef}, {"m": [], "indef": indef}], "indef": indef}], kind="data-enc")
    for b in names:
        add(["builtin", b], kind="builtins")
    for i in range(6000 if quick else 40000):
        v = (1, 1, 0) if i % 3 else (1, 0, 0)
        add(G.gen_term(rng, 2 + rng.below(50), names, 0, allow_constr=(v == (1, 1, 0)), bls=(i % 7 == 0), encodings=True), v)
    for v in [(0, 0, 0), (1, 0, 0), (2, 3, 4), (100, 2000, 30000)]:
        add(["con", "unit", None], v, kind="versions")

    res = common.run_jobs("uplc-run", [{k: v for k, v in j.items() if not k.startswith("_")} for j in jobs])
    feats = set()
    for j in jobs:
        r = res.get(j["id"], {})
        w = {"term": j["term"], "version": j["version"]}
        chk.count("kind:" + j["_k"])
        if "harness_error" in r:
            chk.inconc("harness_error:" + str(r["harness_error"])[:50])
            continue
        if "panic" in r or "died" in r or "timeout" in r:
            chk.violation("C08|crash|" + j["op"], {**w, "observed": r})
            continue
        G.term_features(j["term"], feats)
        if j["op"] == "codec":
            if "flat_err" in r:
                if has_bls(j["term"]):
                    chk.count("bls_constant_not_encodable(specified Err)")
                    chk.held(None, nontrivial=False)
                else:
                    chk.violation("C08|to_flat-error", {**w, "observed": r})
                continue
            # flat_rt_tree_eq: equality including the CBOR shape of embedded Data (definite vs
            # indefinite arrays / maps, int vs bignum): Data travels through flat as its CBOR bytes, so
            # a script that arrives as bytes must keep them (Program's PartialEq ignores the shape)
            bad = [k for k in ("flat_rt_tree_eq", "flat_rt_eq", "flat_idem", "flat_nd_rt_eq", "flat_fake_idem", "flat_fake_rt_eq", "flat_name_rt_eq", "cbor_rt_eq", "cbor_idem", "hex_is_cbor", "hex_rt_eq") if r.get(k) is not True]
            flat = bytes.fromhex(r.get("flat", ""))
            if r.get("cbor") != (cbor_bytes_header(len(flat)) + flat).hex():
                bad.append("cbor-wrapper")
            if bad:
                for k in bad:
                    chk.violation(f"C08|codec|{k}", {**w, "observed": {k2: v for k2, v in r.items() if k2 not in ("flat", "cbor")}, "flat": r.get("flat")})
            else:
                chk.held(h(j["term"]), sample={"term": j["term"], "flat": r["flat"]} if j["id"] % 1999 == 0 else None)
        else:
            if "to_cbor_err" in r:
                if has_bls(j["term"]):
                    chk.held(None, nontrivial=False)
                else:
                    chk.violation("C08|to_cbor-error", {**w, "observed": r})
                continue
            if check_serde(chk, r, w, "C08|serde"):
                chk.held(h(["hash", j["term"]]))

    # compiler output: programs harvested from the repository's own test sources are
    # compiled by the working tree and their bytes re-encoded through every form
    import harvest

    progs = harvest.compiled_hexes(limit=400 if quick else 2000)
    rjobs = [{"id": i, "op": "recode", "hex": hx} for i, hx in enumerate(progs)]
    rres = common.run_jobs("uplc-run", rjobs)
    for j in rjobs:
        r = rres.get(j["id"], {})
        w = {"hex": j["hex"]}
        if "panic" in r or "died" in r or "timeout" in r:
            chk.violation("C08|crash|recode", {**w, "observed": r})
            continue
        bad = [k for k in ("debruijn", "fake", "via_text") if r.get(k) != "same"]  # NamedDeBruijn flat carries names: on-chain bytes are not in that format by design
        for k in bad:
            chk.violation(f"C08|recode|{k}|{str(r.get(k))[:20].split(':')[0]}", {**w, "observed": {k2: v for k2, v in r.items() if k2 not in ("tree", "serde")}})
        ok = check_serde(chk, r.get("serde", {"cbor": ""}), w, "C08|compiled-serde") if "serde" in r else False
        if not bad and ok:
            chk.count("compiler_output_programs")
            chk.held(h(j["hex"]), sample={"compiled_hex": j["hex"][:120] + "..."} if j["id"] % 97 == 0 else None)
    # blueprint entries written by *another* tool chain: valid script bytes with their correct ledger
    # hash, but not in the form this toolchain's encoder writes (non-minimal outer CBOR header;
    # a long byte string inside a Data constant in definite-length form). The reader must either
    # refuse the entry or reproduce exactly these bytes and this hash when it saves again —
    # accepting it and then publishing other bytes under another hash moves the script's address.
    fjobs = []
    fmeta = {}
    canon_long = bytes([0x5F, 0x58, 0x40]) + b"\xab" * 64 + bytes([0x46]) + b"\xab" * 6 + b"\xff"
    foreign_long = bytes([0x58, 0x46]) + b"\xab" * 70
    carriers = [["con", "data", {"b": "ab" * 70}], ["app", ["lam", ["var", 1]], ["con", "data", {"b": "ab" * 70}]], ["delay", ["con", "data", {"b": "ab" * 70}]]]
    plain = [G.gen_term(rng, 2 + rng.below(20), names, 0) for _ in range(150 if quick else 600)]
    cres = common.run_jobs("uplc-run", [{"id": i, "op": "codec", "term": t, "version": [1, 1, 0]} for i, t in enumerate(carriers + plain)])
    for i, t in enumerate(carriers + plain):
        r = cres.get(i, {})
        if "flat" not in r:
            continue
        flat = bytes.fromhex(r["flat"])
        variants = []
        seg = bytes([len(canon_long)]) + canon_long + b"\x00"
        if i < len(carriers) and seg in flat:
            f2 = flat.replace(seg, bytes([len(foreign_long)]) + foreign_long + b"\x00", 1)
            variants.append(("definite-long-bytes-in-data", cbor_bytes_header(len(f2)) + f2))
        n = len(flat)
        if n < 256:
            variants.append(("non-minimal-header-16", bytes([0x59, 0x00, n]) + flat))
        variants.append(("non-minimal-header-32", bytes([0x5A]) + n.to_bytes(4, "big") + flat))
        for label, code in variants:
            for tag in (1, 2, 3):
                hsh = hashlib.blake2b(bytes([tag]) + code, digest_size=28).hexdigest()
                j = {"id": len(fjobs), "op": "json_load", "kind": "program", "text": json.dumps({"compiledCode": code.hex(), "hash": hsh})}
                fmeta[j["id"]] = (label, tag, code.hex(), hsh, t)
                fjobs.append(j)
    fres = common.run_jobs("aiken-run", fjobs)
    for j in fjobs:
        label, tag, code, hsh, t = fmeta[j["id"]]
        r = fres.get(j["id"], {})
        w = {"entry_form": label, "plutus_version_tag": tag, "compiledCode": code, "hash": hsh, "term": t}
        chk.count("foreign_entries_judged")
        if "panic" in r or "died" in r:
            chk.violation("C08|foreign-blueprint-entry|crash", {**w, "observed": r})
        elif r.get("loaded") is False:
            chk.count("foreign_entries_refused")
            chk.held(h(["foreign", label, tag, code]))
        elif r.get("loaded") is True:
            rs = r.get("resaved") or {}
            if rs.get("compiledCode") != code or rs.get("hash") != hsh:
                chk.violation(f"C08|foreign-blueprint-entry|accepted-then-saved-with-other-bytes-or-hash|{label}", {**w, "resaved": rs})
            else:
                chk.count("foreign_entries_reproduced")
                chk.held(h(["foreign", label, tag, code]))
        else:
            chk.inconc("foreign-entry-no-verdict")
    if not quick:
        # sanitizer lane: Miri on encode/decode round trips (the flat codec does manual bit arithmetic)
        import lanes

        lanes.miri(chk, "C08", "codec", [chk.seed * 100 + i for i in range(16)], 40)
    chk.count("builtins_covered", len([x for x in feats if x.startswith("b:")]))
    chk.count("constant_types_covered", len([x for x in feats if x.startswith("t:")]))
    chk.assumptions = [
        "program equality after decoding is decided on the harness' own JSON rendering (constants by value) and on Program's PartialEq",
        "BLS constants cannot be flat-encoded by design; the encoder's Err is the specified behaviour",
        "blueprint-level (Blueprint/Validator JSON) load/save and CLI paths are exercised by the project-level part of this check",
    ]
    chk.finish(
        rule="boundary constants (64/255/256-byte chunks, 64/128-bit integer edges, Unicode strings, Data in definite/indefinite and int/bignum encodings, every constructor-tag range), every builtin, seeded random programs over all term constructors in versions 1.0.0/1.1.0, and programs compiled by the working tree from the repository's own test sources; distinct = structural hash",
        floor={"evaluations": 2000, "hashes_checked": 1000, "compiler_output_programs": 20, "foreign_entries_judged": 100},
    )


if __name__ == "__main__":
    main()
