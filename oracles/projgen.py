"""On-disk Aiken projects for the project-level checks (C09, C17): generated projects
designed to provoke sharing between tests (same module constants - lists, pairs, nested -,
same generic hoisted functions, same types; unit and property tests; validators with
parameters), and scratch copies of the repository's dependency-free acceptance projects.
Scratch directories live on tmpfs (/dev/shm), where readdir order follows creation order,
so creating the files in a permuted order really changes the discovery order."""
import glob
import os
import shutil

import common
from common import Rng

FUZZ_LIB = '''use aiken/builtin

pub fn byte() -> Fuzzer<Int> {
  fn(prng: PRNG) {
    when prng is {
      Seeded { seed, choices } -> {
        let digest = builtin.blake2b_256(seed)
        let choice = builtin.index_bytearray(digest, 0)
        Some(
          (
            Seeded { seed: digest, choices: builtin.cons_bytearray(choice, choices) },
            choice,
          ),
        )
      }
      Replayed { cursor, choices } ->
        if cursor >= 1 {
          let next = cursor - 1
          Some(
            (
              Replayed { cursor: next, choices },
              builtin.index_bytearray(choices, next),
            ),
          )
        } else {
          None
        }
    }
  }
}

pub fn constant(a: a) -> Fuzzer<a> {
  fn(s0) { Some((s0, a)) }
}

pub fn map(fuzz_a: Fuzzer<a>, f: fn(a) -> b) -> Fuzzer<b> {
  fn(s0) {
    when fuzz_a(s0) is {
      Some((s1, a)) -> Some((s1, f(a)))
      None -> None
    }
  }
}

pub fn and_then(fuzz_a: Fuzzer<a>, f: fn(a) -> Fuzzer<b>) -> Fuzzer<b> {
  fn(s0) {
    when fuzz_a(s0) is {
      Some((s1, a)) -> f(a)(s1)
      None -> None
    }
  }
}

pub fn both(fa: Fuzzer<a>, fb: Fuzzer<b>) -> Fuzzer<(a, b)> {
  let a <- and_then(fa)
  let b <- map(fb)
  (a, b)
}

fn list_n(n: Int, f: Fuzzer<a>) -> Fuzzer<List<a>> {
  if n <= 0 {
    constant([])
  } else {
    let x <- and_then(f)
    let xs <- map(list_n(n - 1, f))
    [x, ..xs]
  }
}

pub fn list_of(f: Fuzzer<a>) -> Fuzzer<List<a>> {
  let n <- and_then(byte())
  list_n(n % 5, f)
}
'''


def shared_module(rng: Rng, k: int):
    ints = ", ".join(str(rng.range(-50, 300)) for _ in range(3 + rng.below(5)))
    pairs = ", ".join(f"Pair({rng.below(9)}, #\"{rng.bytes(2).hex()}\")" for _ in range(2 + rng.below(3)))
    return f'''pub type Shape {{
  Circle(Int)
  Rect {{ w: Int, h: Int }}
  Blob(List<Int>, Option<ByteArray>)
}}

pub type Box<a> {{
  Box {{ inner: a, tag: Int }}
}}

pub const numbers: List<Int> = [{ints}]

pub const table: Pairs<Int, ByteArray> = [{pairs}]

pub const nested: List<(Int, List<ByteArray>)> = [(1, [#"00", #"ff"]), (2, []), ({k}, [#"{rng.bytes(3).hex()}"])]

pub const shapes: List<Shape> = [Circle({k}), Rect {{ w: 2, h: 3 }}, Blob(numbers, Some(#"{rng.bytes(2).hex()}"))]

pub const boxed: Box<List<Int>> = Box {{ inner: numbers, tag: {k} }}

pub fn sum(xs: List<Int>) -> Int {{
  when xs is {{
    [] -> 0
    [x, ..rest] -> x + sum(rest)
  }}
}}

pub fn length(xs: List<a>) -> Int {{
  when xs is {{
    [] -> 0
    [_, ..rest] -> 1 + length(rest)
  }}
}}

pub fn map(xs: List<a>, f: fn(a) -> b) -> List<b> {{
  when xs is {{
    [] -> []
    [x, ..rest] -> [f(x), ..map(rest, f)]
  }}
}}

pub fn area(s: Shape) -> Int {{
  when s is {{
    Circle(r) -> 3 * r * r
    Rect {{ w, h }} -> w * h
    Blob(xs, _) -> sum(xs)
  }}
}}

pub fn unbox(b: Box<a>) -> a {{
  b.inner
}}
'''


def tests_module(rng: Rng, idx: int, n_unit: int, n_prop: int, failing: bool):
    out = ["use fz", "use shared.{Blob, Box, Circle, Rect, Shape}", "", "fn boxed_byte() -> Fuzzer<Box<Int>> {\n  fz.map(fz.byte(), fn(b) { Box { inner: b, tag: 0 } })\n}\n"]
    for i in range(n_unit):
        k = rng.below(13)
        body = [
            # the same `expect` / trace / `?` text in many tests of many modules: whatever the code
            # generator keeps per message (hoisted trace functions, string constants) is built once
            # per generator and must still end up un-shared in every test's program
            "expect [n, ..] = shared.numbers\n  n == n",
            "expect Some(n): Option<Int> = Some(shared.length(shared.numbers))\n  n >= 3",
            "(shared.length(shared.numbers) >= 3)? && (shared.length(shared.table) >= 2)?",
            "trace @\"checking numbers\"\n  shared.length(shared.numbers) >= 3",
            "expect [n, ..] = shared.numbers\n  expect Some(m): Option<Int> = Some(n)\n  m == n",
            "shared.sum(shared.numbers) == shared.sum(shared.numbers)",
            "shared.length(shared.numbers) >= 3",
            "shared.length(shared.table) >= 2",
            "shared.map(shared.numbers, fn(x) { x + 1 }) != shared.numbers",
            "shared.sum(shared.map(shared.shapes, shared.area)) == shared.sum(shared.map(shared.shapes, shared.area))",
            "shared.unbox(shared.boxed) == shared.numbers",
            "shared.length(shared.nested) == 3",
            f"shared.area(Rect {{ w: {idx + 1}, h: {i + 2} }}) == {(idx + 1) * (i + 2)}",
        ][k]
        out.append(f"test unit_{idx}_{i}() {{\n  {body}\n}}\n")
    for i in range(n_prop):
        k = rng.below(7)
        if k >= 5:
            out.append(f"test prop_{idx}_{i}(n via fz.byte()) {{\n  expect [h, ..] = shared.numbers\n  expect Some(m): Option<Int> = Some(n)\n  m + h == n + h\n}}\n")
        elif k == 0:
            out.append(f"test prop_{idx}_{i}(n via fz.byte()) {{\n  n + shared.length(shared.numbers) >= 3\n}}\n")
        elif k == 1:
            out.append(f"test prop_{idx}_{i}(xs via fz.list_of(fz.byte())) {{\n  shared.sum(xs) + shared.sum(shared.numbers) == shared.sum(shared.numbers) + shared.sum(xs)\n}}\n")
        elif k == 2 and failing:
            out.append(f"test prop_{idx}_{i}(xs via fz.list_of(fz.byte())) fail {{\n  shared.sum(xs) < {50 + rng.below(150)}\n}}\n")
        elif k == 3:
            out.append(f"test prop_{idx}_{i}(p via fz.both(fz.byte(), fz.byte())) {{\n  shared.area(Rect {{ w: p.1st, h: p.2nd }}) == p.1st * p.2nd\n}}\n")
        elif failing:
            out.append(f"test prop_{idx}_{i}(n via fz.byte()) fail once {{\n  n < {30 + rng.below(150)}\n}}\n")
        else:
            out.append(f"test prop_{idx}_{i}(n via boxed_byte()) {{\n  shared.unbox(n) >= 0\n}}\n")
    return "\n".join(out)


def validators_module(rng: Rng, idx: int):
    return f'''use shared.{{Box, Shape}}

validator gate_{idx}(limit: Int, owner: ByteArray, cfg: Box<List<Int>>) {{
  spend(datum: Option<Shape>, redeemer: List<Int>, _o: Data, _self: Data) {{
    expect Some(s) = datum
    shared.area(s) + shared.sum(redeemer) <= limit + shared.sum(cfg.inner) + shared.length(shared.numbers)
  }}

  mint(redeemer: Shape, _policy: ByteArray, _self: Data) {{
    shared.area(redeemer) > {idx} || owner == #"00"
  }}

  else(_) {{
    fail
  }}
}}

validator plain_{idx} {{
  withdraw(redeemer: Pairs<Int, ByteArray>, _c: Data, _self: Data) {{
    shared.length(redeemer) == shared.length(shared.table)
  }}

  else(_) {{
    fail
  }}
}}

// the same validator name in every validator module: only the module name tells them apart
validator main(threshold: Int) {{
  withdraw(redeemer: List<Int>, _c: Data, _self: Data) {{
    shared.sum(redeemer) + {idx} > threshold
  }}

  else(_) {{
    fail
  }}
}}
'''


TOML = '''name = "verif/gen{n}"
version = "0.0.0"
compiler = "v1.1.23"
plutus = "{plutus}"
license = "Apache-2.0"
description = "generated"
'''


def generated_project(rng: Rng, n: int, modules=4, unit=6, prop=3, failing=True, plutus="v3"):
    """-> {relative path: text}"""
    files = {"aiken.toml": TOML.format(n=n, plutus=plutus), "lib/fz.ak": FUZZ_LIB, "lib/shared.ak": shared_module(rng, n + 2)}
    for i in range(modules):
        files[f"lib/tests_{i}.ak"] = tests_module(rng, i, unit, prop, failing)
    for i in range(3):
        files[f"validators/v{i}.ak"] = validators_module(rng, i)
    return files


def materialise(files: dict, root: str, order=None):
    """write the project; `order` = list of relative paths giving the creation order"""
    if os.path.exists(root):
        shutil.rmtree(root)
    paths = order or sorted(files)
    for rel in paths:
        p = os.path.join(root, rel)
        os.makedirs(os.path.dirname(p), exist_ok=True)
    for rel in paths:
        with open(os.path.join(root, rel), "w") as f:
            f.write(files[rel])
    return root


def acceptance_projects():
    """[(name, {rel: text})] for the dependency-free acceptance projects of the working tree"""
    out = []
    base = os.path.join(common.REPO, "examples/acceptance_tests")
    for d in sorted(glob.glob(os.path.join(base, "*"))):
        toml = os.path.join(d, "aiken.toml")
        if not os.path.isfile(toml):
            continue
        t = open(toml).read()
        if "[[dependencies]]" in t or "dependencies =" in t:
            continue
        files = {"aiken.toml": t}
        for sub in ("lib", "validators", "env"):
            for p in glob.glob(os.path.join(d, sub, "**/*.ak"), recursive=True):
                files[os.path.relpath(p, d)] = open(p).read()
        if len(files) > 1:
            out.append((os.path.basename(d), files))
    return out


def scratch_root():
    d = f"/dev/shm/verif-{os.getpid()}"
    os.makedirs(d, exist_ok=True)
    return d


def cleanup():
    shutil.rmtree(f"/dev/shm/verif-{os.getpid()}", ignore_errors=True)
