#!/usr/bin/env python3
"""C04 — every builtin computes its specified function on its whole domain.

Oracle: one Python function per builtin (oracles/uplc_ref/builtins.py, written from the
builtin specification and calibrated on the upstream goldens; BLS12-381 arithmetic,
pairing and multi-scalar multiplication included, hashToGroup excepted). Workload:
boundary-biased saturated applications per builtin (0, +-1, 2^63+-1, 2^64+-1, 2^127,
2^128+-1, huge; 0/1/8/9/31/32/33/64/65-byte strings; indices at -1, 0, len-1, len,
8*len-1, 8*len; invalid UTF-8; every Data shape in every CBOR encoding; wrong-typed,
non-constant, missing and extra arguments, wrong force counts) evaluated by the real
machine under all five semantics variants. Determinism: every case is evaluated twice,
in a different process and order."""
import sys

import common
import uplc_checks as U
from common import Check


def main():
    a = common.parse_args(sys.argv[1:])
    if not a.no_build:
        common.build(["uplc-run"])
    chk = Check("C04", "exploration", a.tier)
    quick = a.tier != "thorough"
    # one configuration per semantics variant A..E, V3/pv11 (E) weighted double
    configs = [("v3", 11), ("v3", 11), ("v2", 11), ("v3", 10), ("v2", 9), ("v1", 8)]
    per = 600 if quick else 20000
    names = U.builtin_names()
    tasks = [("builtin", n, per, chk.seed, configs, None) for n in names]
    results = U.run_tasks(tasks)
    totals = U.collect(results, chk, props={"C04"})
    # every Integer argument position x every machine-word edge, other arguments as generated
    edges = U.run_tasks([("builtin-edges", n, 1 if quick else 6, chk.seed + 2, configs, None) for n in names])
    etotals = U.collect(edges, chk, props={"C04"})
    chk.count("integer_edge_cases", etotals["cases"])
    # determinism: the same seeded cases again, in fresh processes, fed in reverse order:
    # "a builtin never answers differently for equal arguments"
    again = U.run_tasks([("builtin", n, per, chk.seed, configs, "reverse") for n in names])
    by_name = {r["name"]: r for r in results}
    for r in again:
        first = by_name[r["name"]]["outcomes"]
        for i, (x, y) in enumerate(zip(first, r["outcomes"])):
            chk.count("determinism_cases")
            if x != y:
                chk.violation(f"C04|{r['name']}|nondeterministic", {"builtin": r["name"], "case_index": i, "seed": chk.seed, "note": "same arguments, different outcome/cost in a second process"})
    chk.count("cases_total", totals["cases"])
    chk.count("no_verdict_budget", totals["nobudget"])
    chk.count("builtins_total", len(names))
    chk.count("builtins_with_charged_calls", len([k for k in chk.counters if k.startswith("b:")]))
    if not quick:
        # sanitizer lanes: Miri on the bitwise / conversion builtins (pure Rust over bitvec's
        # unsafe), valgrind memcheck on the FFI builtins (blst, secp256k1) with boundary lengths
        import lanes
        from common import Rng

        lanes.miri(chk, "C04", "bitwise", [chk.seed * 100 + i for i in range(16)], 40)
        lanes.valgrind(chk, "C04", "ffi-builtins", lanes.ffi_jobs(Rng(chk.seed, 404), 400))
    chk.assumptions = [
        "reference builtins in oracles/uplc_ref/builtins.py + bls.py are the trusted base (calibrated on 1340 upstream goldens); hashToGroup has no independent implementation: cases that need it are inconclusive",
        "integer arguments that the Haskell implementation unlifts as machine Int follow the upstream goldens (out-of-Int64 => evaluation failure)",
    ]
    chk.finish(
        rule="per builtin: seeded boundary-biased argument tuples (see module docstring), 1 in 40 each of: wrong-typed constant, wrong list/pair element type, non-constant argument, unsaturated, wrong force count, over-application, interleaved force, result captured in a closure; semantics variants A-E via (language, protocol) configurations; distinct = hash(term, configuration)",
        floor={"evaluations": 20000, "builtins_with_charged_calls": len(names) - 6},
    )


if __name__ == "__main__":
    main()
