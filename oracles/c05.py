#!/usr/bin/env python3
"""C05 — execution budgets are exact. Four monitors, in decreasing independence:

 1. upstream `*.uplc.budget.expected` goldens (never read by the repository's tests)
    against the machine's cost under PlutusV3 / protocol 11, with the default model and
    with the parameter vector embedded in tests/conformance.rs (harvested at run time);
 2. accounting identity on every terminating evaluation: cost = start-up + (reference
    evaluator's step count) x unit step cost + sum of the builtin costs the machine
    charged (hook H3), same list of charged builtin calls, and the machine's own
    per-step-kind counters = reference count per kind x unit cost;
 3. builtin costing as a function of argument sizes (H3 events): equal size tuples (sizes
    from the independent Python ExMemory model, literal values / list lengths where the
    cost model uses them) => equal cost; monotone for the monotone shapes;
 4. metamorphic, real machine only: cost independent of the batching interval
    (slippage 1..u32::MAX); budget exactly C succeeds with remainder (0,0); C-1 in either
    dimension fails with OutOfExError under every slippage; C+d leaves d; random budgets
    B in [0, 2C]: success iff C <= B componentwise; a success never has a negative
    remainder."""
import json
import os
import re
import sys

import common
import uplc_checks as U
from common import Check, Rng, h
from uplc_ref import builtins as B
from uplc_ref import exmem, variant_for
from uplc_ref import difftest as D
from uplc_ref import term as T

SLIPPAGES = [1, 2, 3, 7, 199, 200, 201, 10_000, 4294967295]
LITERAL = {"replicateByte": [0], "dropList": [0], "shiftByteString": [1], "rotateByteString": [1], "integerToByteString": [1], "expModInteger": [0, 1, 2], "indexArray": [1]}
MONOTONE = {"addInteger", "subtractInteger", "multiplyInteger", "appendByteString", "appendString", "sha2_256", "sha3_256", "blake2b_256", "blake2b_224", "keccak_256", "ripemd_160", "encodeUtf8", "decodeUtf8", "serialiseData", "complementByteString", "countSetBits", "findFirstSetBit", "lengthOfByteString", "consByteString", "bData", "iData"}


def conformance_vector():
    src = open(os.path.join(common.REPO, "crates/uplc/tests/conformance.rs")).read()
    m = re.search(r"const V3_PV11_COSTS: &\[i64\] = &\[(.*?)\];", src, re.S)
    if not m:
        return None
    return [int(x) for x in re.findall(r"-?\d+", m.group(1))]


def parse_budget(text):
    m = re.search(r"cpu:\s*(-?\d+).*?mem:\s*(-?\d+)", text, re.S)
    return (int(m.group(1)), int(m.group(2))) if m else None


def size_tuple(ev, variant):
    """independent size measure of one charged builtin call (None if an argument is not a constant)"""
    out = []
    lit = LITERAL.get(ev["f"], [])
    for i, a in enumerate(ev["a"]):
        if isinstance(a, dict):
            out.append(("nonconst",))
            continue
        ty = T.type_from_json(a[1])
        v = T.value_from_json(ty, a[2])
        sz = exmem.constant_size(ty, v, variant)
        extra = None
        if i in lit and a[1] == "integer":
            extra = abs(int(a[2]))
        if isinstance(a[1], list) and a[1][0] == "list":
            extra = len(a[2])
        out.append((sz, extra))
    return tuple(out)


def main():
    a = common.parse_args(sys.argv[1:])
    if not a.no_build:
        common.build(["uplc-run"])
    chk = Check("C05", "exploration", a.tier)
    rng = Rng(chk.seed, 5)
    quick = a.tier != "thorough"

    # ---------------- monitor 1: upstream budget goldens
    vec = conformance_vector()
    jobs = []
    meta = {}
    for f, prog, exp, bud in U.conformance_terms("v3", None):
        if bud is None:
            continue
        want = parse_budget(bud)
        if want is None:
            continue
        for label, costs in (("default-model", None), ("conformance-vector", vec)):
            if label == "conformance-vector" and vec is None:
                continue
            j = {"id": len(jobs), "op": "eval", "term": prog[1], "version": list(prog[0]), "lang": "v3", "pv": 11}
            if costs is not None:
                j["costs"] = costs
            meta[j["id"]] = (os.path.relpath(f, common.REPO), want, label)
            jobs.append(j)
    res = common.run_jobs("uplc-run", jobs, per_job_timeout=120)
    golden_ok = 0
    for j in jobs:
        r = res.get(j["id"], {})
        rel, want, label = meta[j["id"]]
        if "harness_error" in r:
            chk.inconc("golden:harness_error")
            continue
        if "panic" in r or "died" in r:
            chk.violation(f"C05|golden|crash|{rel.split('/')[-2]}", {"file": rel, "observed": r})
            continue
        if "err" in r:
            chk.count("golden_not_evaluable_or_failing")
            continue
        got = tuple(r["cost"])
        if got != want:
            chk.violation(f"C05|golden-budget-mismatch|{label}|{rel.split('/')[-3] if '/' in rel else rel}", {"file": rel, "model": label, "golden": want, "machine": got})
        else:
            golden_ok += 1
            chk.held(h(["golden", rel, label]), sample={"golden_file": rel, "model": label, "cpu_mem": want} if golden_ok % 400 == 1 else None)
    chk.count("golden_budgets_matched", golden_ok)

    # ---------------- monitor 2: accounting identity through the shared engine
    configs = U.CONFIGS_ALL
    tasks = []
    per = 800 if quick else 20000
    for i in range(common.NCPU):
        tasks.append(("machine", f"shard{i}", per, chk.seed + 777 * i, configs, None))
    bper = 150 if quick else 4000
    for n in U.builtin_names():
        tasks.append(("builtin", n, bper, chk.seed, [("v3", 11), ("v2", 11), ("v3", 10), ("v2", 9), ("v1", 8)], None))
    results = U.run_tasks(tasks)
    totals = U.collect(results, chk, props={"C05"})
    chk.count("accounting_cases", totals["cases"])

    # ---------------- monitors 3 and 4 need raw machine output: direct driver runs
    names = [b.name for b in B.BUILTINS.values()]
    jobs = []
    cfgs = [("v3", 11), ("v2", 11), ("v3", 10), ("v2", 9), ("v1", 8)]
    for b in B.BUILTINS.values():
        r2 = Rng(chk.seed, 5000 + len(jobs))
        n = max(10, (120 if quick else 3000) // D.SLOW.get(b.name, 8 if b.name.startswith("bls12_381") else 1))
        for i in range(n):
            lang, pv = cfgs[i % len(cfgs)]
            args = D.gen_args(r2, b)
            jobs.append({"id": len(jobs), "op": "eval", "term": D.apply_builtin(b, args), "lang": lang, "pv": pv, "budget": U.BIG_BUDGET, "events": True})
    res = common.run_jobs("uplc-run", jobs, per_job_timeout=120)
    groups = {}
    for j in jobs:
        r = res.get(j["id"], {})
        variant = variant_for(j["lang"], j["pv"])
        for ev in r.get("builtins", []) or []:
            try:
                st = size_tuple(ev, variant)
            except Exception:
                chk.count("size_model_skipped")
                continue
            groups.setdefault((ev["f"], variant), {}).setdefault(st, set()).add(tuple(ev["c"]))
            chk.count("builtin_cost_events")
    for (f, variant), by_size in groups.items():
        for st, costs in by_size.items():
            if len(costs) > 1:
                chk.violation(f"C05|builtin-cost-not-a-function-of-sizes|{f}", {"builtin": f, "variant": variant, "sizes": st, "costs": sorted(costs)})
            else:
                chk.held(h(["sizes", f, variant, st]))
        if f in MONOTONE:
            pts = sorted((st, next(iter(c))) for st, c in by_size.items() if len(c) == 1 and all(len(x) == 2 and x[1] is None for x in st))
            for (s1, c1) in pts:
                for (s2, c2) in pts:
                    if all(a[0] <= b[0] for a, b in zip(s1, s2)) and (c1[0] > c2[0] or c1[1] > c2[1]):
                        chk.violation(f"C05|builtin-cost-not-monotone|{f}", {"builtin": f, "variant": variant, "smaller": [s1, c1], "larger": [s2, c2]})
                        break
    chk.count("builtin_cost_groups", sum(len(v) for v in groups.values()))
    # monitor 3b: the charged cost must be a member of the cost-model language (costfit.py)
    import itertools

    import costfit

    for (f, variant), by_size in sorted(groups.items()):
        table = [(st, next(iter(c))) for st, c in by_size.items() if len(c) == 1 and all(len(x) == 2 for x in st)]
        table = [(st, c) for st, c in table if max(c) < 2**62]
        if len(table) < 8:
            chk.count("shape_fit_skipped_too_few_points")
            continue
        ar = len(table[0][0])
        choices = []
        for i in range(ar):
            opts = ["size"]
            if any(st[i][1] is not None for st, _ in table):
                opts.append("literal")
                # a requested output length in bytes is costed as the size of such a byte string
                # (8-byte words): replicateByte, integerToByteString
                opts.append("literal-as-bytestring-words")
            choices.append(opts)
        for di, dim in ((0, "cpu"), (1, "mem")):
            fitted = None
            for combo in itertools.product(*choices):
                pts = {}
                clash = False
                for st, c in table:
                    key = tuple((x[1] if (m == "literal" and x[1] is not None) else (0 if x[1] == 0 else (x[1] - 1) // 8 + 1) if (m == "literal-as-bytestring-words" and x[1] is not None) else x[0]) for x, m in zip(st, combo))
                    if pts.setdefault(key, c[di]) != c[di]:
                        clash = True
                        break
                if clash:
                    continue
                fam = costfit.fit(sorted(pts.items()), dim)
                if fam:
                    fitted = (combo, fam)
                    break
            if fitted:
                chk.held(h(["shape", f, variant, dim]))
                chk.count("shape_fits")
                chk.count(f"shape:{dim}:{fitted[1]}")
            else:
                sample_pts = sorted(((tuple(x[0] for x in st), c[di]) for st, c in table))[:14]
                chk.violation(f"C05|builtin-cost-outside-the-cost-model-language|{f}|{dim}", {"builtin": f, "variant": variant, "dimension": dim, "points_sizes_cost": sample_pts, "note": "no costing-function family of the specification reproduces these (sizes -> cost) points"})

    # monitor 4: metamorphic budgets on terminating programs
    progs = []
    for i in range(400 if quick else 6000):
        progs.append(D.gen_machine_case(rng))
    for f, prog, exp, bud in U.conformance_terms("v3", 150 if quick else None):
        progs.append(prog[1])
    first = [{"id": i, "op": "eval", "term": t, "lang": ("v3", "v2", "v1")[i % 3], "pv": 8 + (i % 4), "budget": U.MACHINE_BUDGET} for i, t in enumerate(progs)]  # finite: random machine terms may diverge
    r1 = common.run_jobs("uplc-run", first, per_job_timeout=120)
    jobs = []
    exp = {}

    def add(base, kind, want, **kw):
        j = {"id": len(jobs), "op": "eval", "term": base["term"], "lang": base["lang"], "pv": base["pv"]}
        j.update(kw)
        exp[j["id"]] = (kind, want, base["id"])
        jobs.append(j)

    nterm = 0
    for b in first:
        r = r1.get(b["id"], {})
        if "ok" not in r:
            continue
        C = r["cost"]
        if C[0] <= 0 or C[1] <= 0 or C[0] > 10**15:
            continue
        nterm += 1
        for s in SLIPPAGES:
            add(b, "slippage-cost", C, budget=U.BIG_BUDGET, slippage=s)
        for s in (1, 200, 4294967295, rng.pick(SLIPPAGES)):
            add(b, "exact", ("ok", [0, 0]), budget=[C[0], C[1]], slippage=s)
            add(b, "cpu-1", ("oom", None), budget=[C[0] - 1, C[1]], slippage=s)
            add(b, "mem-1", ("oom", None), budget=[C[0], C[1] - 1], slippage=s)
        d = [1 + rng.below(10**6), 1 + rng.below(10**4)]
        add(b, "plus-delta", ("ok", d), budget=[C[0] + d[0], C[1] + d[1]], slippage=rng.pick(SLIPPAGES))
        for _ in range(3):
            Bd = [rng.below(2 * C[0] + 1), rng.below(2 * C[1] + 1)]
            ok = C[0] <= Bd[0] and C[1] <= Bd[1]
            add(b, "random-budget", ("ok", [Bd[0] - C[0], Bd[1] - C[1]]) if ok else ("oom", None), budget=Bd, slippage=rng.pick(SLIPPAGES))
    chk.count("terminating_programs_for_budget_metamorphics", nterm)
    r2 = common.run_jobs("uplc-run", jobs, per_job_timeout=120)
    for j in jobs:
        r = r2.get(j["id"], {})
        kind, want, bid = exp[j["id"]]
        w = {"term": j["term"], "lang": j["lang"], "pv": j["pv"], "budget": j.get("budget"), "slippage": j.get("slippage"), "relation": kind, "expected": want, "observed": {k: v for k, v in r.items() if k in ("ok", "err", "cost", "remaining", "panic")}}
        if "panic" in r or "died" in r:
            chk.violation(f"C05|metamorphic|crash|{kind}", w)
            continue
        bad = False
        if kind == "slippage-cost":
            bad = "ok" not in r or r["cost"] != want
        elif want[0] == "ok":
            bad = "ok" not in r or r["remaining"] != want[1] or min(r["remaining"]) < 0
        else:
            bad = r.get("err") != "OutOfExError"
        if bad:
            chk.violation(f"C05|metamorphic|{kind}", w)
        else:
            chk.held(h(["meta", kind, j["term"], j.get("budget"), j.get("slippage")]), sample=w if j["id"] % 4001 == 17 else None)
        chk.count("relation:" + kind)
    chk.assumptions = [
        "goldens: only PlutusV3 / protocol 11 is judged against upstream budgets (the V2 budget goldens were produced with the Vasil-era parameter vector, which the repository does not ship)",
        "unit step cost 16000 cpu / 100 mem and start-up 100/100 are taken from the goldens (programs without builtin calls match exactly)",
        "monitor 3 decides functional dependence on the independent size measure and monotonicity; the coefficient mapping from the flat parameter vector is pinned only where a golden exercises the builtin",
    ]
    chk.finish(
        rule="(1) every upstream V3 budget golden x {default model, conformance vector}; (2) random machine terms and boundary-biased builtin applications under V1/V2/V3 x protocol 8-11 with hook H3 events and debug counters; (3) H3 events grouped by (builtin, variant, independent size tuple); (4) terminating programs x 9 batching intervals x budgets {C, C-1 cpu, C-1 mem, C+d, random in [0,2C]}; distinct = hash of (relation, program, configuration)",
        floor={"golden_budgets_matched": 500, "builtin_cost_events": 3000, "terminating_programs_for_budget_metamorphics": 50, "evaluations": 10000},
    )


if __name__ == "__main__":
    main()
