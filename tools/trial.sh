#!/bin/sh
# usage: tools/trial.sh <scratch-repo-dir> <scratch-dir> <ID> [<ID> ...]
# Runs the registered quick checks <ID>.. against a scratch copy of the repository (e.g. a
# worktree with a seeded fault applied). Nothing under /verif/evidence or /repo is touched:
# the harness copy, its build output, evidence and replay files all live under <scratch-dir>.
set -e
repo="$1"; dir="$2"; shift 2
eval "$(/verif/tools/scratch_harness.sh "$repo" "$dir")"
export VERIF_OUT="$dir/out"
mkdir -p "$VERIF_OUT"
cd /verif
rc=0
for id in "$@"; do
  echo "=== trial $id against $repo"
  ./check "$id" --tier quick 2>&1 | cut -c1-300 | tail -n 12 || rc=1
done
exit $rc
