#!/bin/sh
# usage: tools/slot_trial.sh <slot-dir> <patch.diff> <ID> [<ID> ...]
# <slot-dir> holds wt/ (a scratch worktree of /repo), harness/ and target/ (made by
# scratch_harness.sh). Resets the worktree, applies the patch, runs the quick checks against it
# and resets the worktree again. Nothing under /repo or /verif/evidence is touched.
slot="$1"; patch="$2"; shift 2
git -C "$slot/wt" checkout -- . && git -C "$slot/wt" clean -fdq
git -C "$slot/wt" apply "$patch" || { echo "patch does not apply"; exit 3; }
export VERIF_REPO="$slot/wt" VERIF_HARNESS="$slot/harness" VERIF_TARGET="$slot/target" VERIF_OUT="$slot/out"
rm -rf "$slot/out"; mkdir -p "$slot/out"
cd /verif
for id in "$@"; do
  echo "=== trial $id against $patch"
  ./check "$id" --tier quick > "$slot/out/$id.log" 2>&1; echo "exit=$?"
  grep -E "^(VIOLATION|INCONCLUSIVE)" "$slot/out/$id.log" | cut -c1-400 | head -8
  tail -n 3 "$slot/out/$id.log" | cut -c1-300
done
git -C "$slot/wt" checkout -- . && git -C "$slot/wt" clean -fdq
