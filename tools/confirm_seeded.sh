#!/bin/sh
# usage: tools/confirm_seeded.sh <agent-dir> <cargo-target-dir> <crate> [<crate> ...]
# <agent-dir> has wt/ (worktree) and out/{patch.diff,demo/run.sh}. Confirms: demo fails with the
# patch, passes without it, the touched crates' suites pass with it.
d="$1"; export CARGO_TARGET_DIR="$2"; shift 2
wt="$d/wt"
cd "$wt"
# keep demo files (untracked), reset tracked files
git checkout -- . ; git apply "$d/out/patch.diff" || { echo "patch does not apply"; exit 3; }
bash "$d/out/demo/run.sh" "$wt" > "$d/out/confirm_demo_with.log" 2>&1; a=$?
suite=0
for c in "$@"; do cargo test -p "$c" --offline > "$d/out/confirm_suite_$c.log" 2>&1 || suite=1; done
git checkout -- .
bash "$d/out/demo/run.sh" "$wt" > "$d/out/confirm_demo_without.log" 2>&1; b=$?
git apply "$d/out/patch.diff"
echo "RESULT demo_with_patch_exit=$a demo_without_patch_exit=$b suite_with_patch_exit=$suite"
