#!/usr/bin/env python3
"""Regenerates /verif/MANIFEST.json from the table below (single source of truth)."""
import json
import os

VERIF = os.path.dirname(os.path.dirname(os.path.abspath(__file__)))
props = [json.loads(l) for l in open(os.path.join(VERIF, "properties.jsonl"))]

HOOK_COMMITS = ["e816252", "f5bbfdd", "fd08b14", "88a6577", "5bd2fff", "113e5ba"]

# id -> (level category, technique, level text, level note, design ref, has_thorough)
CHECKS = {
    "C08": (
        "exploration",
        "runtime monitoring: round-trip and independent-recomputation oracles (Python blake2b-224 / bech32 / CBOR header) over recorded codec executions",
        "Every explored program is pushed through the repository's flat/CBOR/hex codecs in all binder forms; decode(encode(p)) is compared by value and encode(decode(encode(p))) bit for bit; the published hash and all addresses are recomputed in Python from the bytes; serde load/save is checked to be a fixpoint; bytes of compiler output are re-encoded through every form and through text. Held on the executions listed in the evidence, not a proof.",
        "Trusted: the harness' own JSON (de)serialiser of terms (shares no code with the codecs), Python hashlib. No independent flat decoder: a symmetric encoder/decoder bug that maps programs to the wrong bytes consistently is only caught through the hash/CBOR-header recomputation and the text path.",
        "DESIGN.md §3 C08",
    ),
    "C11": (
        "exploration",
        "runtime monitoring: independent binder-resolution oracle over exhaustively enumerated small terms + random terms",
        "All named terms up to 5 (quick) / 6 (thorough) nodes over three names (shadowing, duplicate texts) and all de Bruijn terms up to 5/7 nodes with indices 0..3 are converted through every conversion the library offers; an independent resolver (scope stack keyed by unique) decides the expected de Bruijn tree or FREE, and every named result is resolved again independently. Random terms up to 200 nodes add evaluation-equality after a round trip.",
        "Trusted: the 20-line resolver in oracles/c11.py. Binding is decided by unique; programs in which one unique carries two texts are out of scope (cannot be produced by the parser or by conversions).",
        "DESIGN.md §3 C11",
    ),
    "C15": (
        "exploration",
        "runtime monitoring: print -> parse round-trip oracle on structural equality of an independently rendered tree",
        "Every builtin (enumerated from the enum, so new builtins are covered), every constant type nesting to depth 3, strings over control/ASCII/Latin-1/BMP/astral code points, Data with every constructor-tag range and seeded random programs are printed by the repository's printer, parsed by its parser, and compared as de Bruijn trees with constants by value; re-printing must be identical. Failures are attributed to atoms (a builtin, a constant class) by a second pass so that known-finding keys are exact.",
        "Trusted: harness JSON rendering of terms; the DeBruijn->Name conversion used before printing (itself monitored by C11).",
        "DESIGN.md §3 C15",
    ),
    "C01": (
        "exploration",
        "runtime monitoring: differential against a definitional interpreter over the generator's own typed AST (reference model), arguments passed at run time as Data",
        "Type-directed generated modules (Int/Bool/ByteArray/String, lists, tuples, pairs, Option, generic and recursive ADTs, records, lambdas, higher-order and recursive functions, when/if/let/expect, pipes, captures, backpassing, constants, Data casts, 45 builtins; one- and two-module layouts) are compiled by the real toolchain under verbose / silent / compact tracing and run on boundary-biased run-time Data arguments; the independent interpreter gives the expected Data value or abort. A disagreement is attributed to a recorded finding only if re-interpreting the source under exactly that deviation reproduces the compiled outcome; everything else is `unexplained`. A second, interpreter-free stream checks monomorphisation invariance: one generic function instantiated at two representations in one program must agree, at each, with its hand-monomorphised copy.",
        "Trusted: oracles/aiken_ref (interp.py, model.py; calibrated on 90 hand-written corner cases). Grey zones excluded by construction: unused lets that can abort, order of sibling aborts, trace text. Interpreter fuel exhaustion is inconclusive.",
        "DESIGN.md §3 C01",
    ),
    "C02": (
        "translation_validation",
        "run-time translation validation: hook H1 snapshots of the program before/after every optimiser pass evaluated by the real machine on the same run-time arguments; hook H2 invariant on the inliner's trusted occurrence counts",
        "For every optimiser run made while compiling G-aiken modules (default and known-shapes streams, three tracings), targeted template modules (every curryable builtin x constant argument positions x 2-4 repetitions, closures over a failing binding) and the repository's harvested test modules, the program on entry, at the entry of every pass and on return is given its denotation (marker lambdas stripped, re-interned) and evaluated on the entry's run-time argument tuples; adjacent snapshots must agree, which names the offending pass. Every occurrence count the inliner trusts is re-counted independently (hook H2, ~150 000 per quick run). A panic in the optimiser on compiler output is a violation.",
        "Trusted: the real machine as common evaluator, the 15-line marker stripper, the shadowing-aware recount in uplc::verif. Programs needing the typed-list lowering of `afterwards` are compared from that stage on only.",
        "DESIGN.md §3 C02",
    ),
    "C03": (
        "exploration",
        "runtime monitoring: differential against an independent reference CEK machine (Python, from the Plutus Core specification, self-tested on upstream goldens) over exhaustively enumerated small terms, random machine terms and the conformance corpus",
        "Every closed term with <= 4 (quick) / 5 (thorough) nodes over a reduced alphabet with six 2-builtin palettes, seeded random machine terms (closures captured under lam/delay/constr/case, case on constants, partial builtins in results, open variables) and the upstream conformance programs are evaluated by the real machine under V1/V2/V3 x protocol 8-11 and by the reference evaluator; results are compared as closed de Bruijn trees after full read-back substitution (the comparison the repository's conformance test cannot make).",
        "Trusted: oracles/uplc_ref (cek.py, builtins.py, term.py), which must reproduce the upstream .expected goldens at the start of every run (else exit 2). Reference fuel exhaustion is inconclusive.",
        "DESIGN.md §3 C03",
    ),
    "C04": (
        "exploration",
        "runtime monitoring: per-builtin reference functions (Python ints/bytes, own Keccak/Ed25519/secp256k1/BLS12-381) as oracle over boundary-biased argument tuples under semantics variants A-E; determinism probe in a second process",
        "For each of the 91 builtins, seeded boundary-biased saturated applications (plus wrong-typed, non-constant, unsaturated, over-applied, mis-forced ones) are evaluated by the real machine, so that costing-time checks are on the path, under one configuration per semantics variant, and compared with the reference function's value or failure. Every case is evaluated a second time in a fresh process in reverse order and must give the identical outcome and cost.",
        "Trusted: oracles/uplc_ref/builtins.py + bls.py (calibrated on ~1340 upstream goldens). hashToGroup has no independent implementation (inconclusive). Out-of-Int64 arguments of Int-typed parameters follow the upstream goldens.",
        "DESIGN.md §3 C04",
    ),
    "C05": (
        "exploration",
        "runtime monitoring: upstream budget goldens + accounting identity from reference step counts and hook-H3 builtin cost events + functional-dependence/monotonicity of builtin costs on an independent size measure + metamorphic budget/slippage relations",
        "(1) all upstream V3 budget goldens under protocol 11 with the default model and the conformance vector; (2) cost = start-up + reference step count x unit + sum of charged builtin costs, same charged calls, per-kind debug counters = reference counts x unit cost, on random machine terms and builtin applications under V1-V3 x pv 8-11; (3) equal independent size tuples => equal builtin cost, monotone shapes monotone; (4) cost independent of 9 batching intervals, budget C succeeds with remainder 0, C-1 in either dimension fails with OutOfExError, C+d leaves d, random budgets succeed iff C <= B.",
        "Trusted: upstream goldens, oracles/uplc_ref step counting and exmem.py. Limit: for builtin x variant pairs without a golden, the mapping from the flat parameter vector to coefficients is not independently decided; V2 budget goldens need the Vasil-era vector which the repository does not ship.",
        "DESIGN.md §3 C05",
    ),
    "C09": (
        "exploration",
        "runtime monitoring: byte-for-byte comparison of build outputs across recorded build histories (processes, in-process rebuilds with fresh hash seeds, thread counts, file-discovery orders on tmpfs, generator re-use and entry orders) + reset invariant at hook H4",
        "Generated multi-module projects and the acceptance projects with validators are built through the real Project in separate processes, repeatedly in one process, with 1/2/16 rayon workers, from tmpfs copies whose files were created in sorted/reversed/shuffled order; the blueprint text must be identical. Modules are compiled with a fresh generator per entry and with one re-used generator in four entry orders; every program must be identical, and after every generate the generator's per-program state (hook H4) must equal a brand-new generator's.",
        "Trusted: sha256/text comparison. The compiler version string embedded in the blueprint is the same within a run.",
        "DESIGN.md §3 C09",
    ),
    "C17": (
        "exploration",
        "runtime monitoring: structural Rc-graph audit at hook H5 right before the parallel section + schedule differential over rayon thread counts and repetitions",
        "For generated projects built to provoke sharing (many unit/property tests over the same list/pair/nested/ADT constants, generic hoisted functions and types) and the dependency-free acceptance projects: at hook H5 every Test's Rc graph is walked (addresses, strong counts); no allocation may be reachable from two tests, every strong count must equal the in-degree inside its own test, no assertion may stay on a unit test. The FinishedTests event (verdicts, budgets, iterations, labels, counterexamples, order within each module) under 2, 4, 16 workers and repeated runs at 16 must equal the single-worker run.",
        "Trusted: the auditor in harness/src/bin/project-run.rs. `type_info` of fuzzers is exempt (never touched on the worker). Module order in the raw event follows a HashMap and differs per process regardless of threads; results are compared grouped by module, as every reporter shows them. The thorough tier adds a ThreadSanitizer lane: the project driver rebuilt with -Zsanitizer=thread -Zbuild-std (std and every dependency instrumented) runs Project::check on the same projects with 8 workers; every report block is a violation.",
        "DESIGN.md §3 C17",
    ),
    "C10": (
        "exploration",
        "runtime monitoring / sanitizer build: overflow-checking + debug-assertion build with catch_unwind and subprocess shards (abort attribution), plain-release twin build in the thorough tier, hostile term and constant-folding workloads, termination on logical budgets",
        "Hostile UPLC terms (open indices 0/depth+1/2^31/2^63, every builtin x every constant kind incl. 10^4-bit integers, huge case tags, 5000 branches, 20000 constr fields, divergent and 3000-deep terms, terms decoded from mutated flat bytes) are evaluated under six finite budgets x 3 languages x 4 protocol versions in a build where arithmetic overflow panics; every harvested module and a table of constant expressions at each folding boundary (in a function, a test and a module constant) are compiled under two tracings. A panic, a dead shard, or a hang under a finite budget is a violation.",
        "Trusted: rustc's overflow checks / debug assertions, the OS. The thorough tier repeats the evaluation workload on a build without overflow checks; the build profile is part of the violation key.",
        "DESIGN.md §3 C10",
    ),
    "C07": (
        "exploration",
        "runtime monitoring: brute-force matcher over enumerated scrutinee values as reference model; exhaustive enumeration of small clause lists + random deeper ones",
        "All clause lists of length <= 3 over the complete depth-<=2 pattern universes of nine small scrutinee types (17 in the thorough tier) plus random clause lists to 6 clauses and let/expect destructuring are type-checked and, when accepted, compiled and run on every enumerated scrutinee value under silent and verbose tracing. The oracle enumerates values and computes first match, bindings, unmatched values and per-clause reach sets by brute force; compared are the accept/reject verdict, the reported missing patterns, the clause flagged redundant, and the clause index + bindings the compiled code returns.",
        "Trusted: patterns/brute.py and patterns/types.py (value enumeration to pattern depth + 1, list length + 1, literals mentioned + one fresh), cross-checked by a second enumeration strategy. The compiler's `unmatched` list is judged as witnesses, not as a cover.",
        "DESIGN.md §3 C07",
    ),
    "C12": (
        "exploration",
        "runtime monitoring: four-way differential oracle (schema validation vs compiled expect vs independent Python type model vs independent reader of the published schema JSON) over generated types and conforming / near-miss Data",
        "For generated type definitions, every conforming value and near-miss mutant is judged by Parameter::validate on the published schema, by the compiled `expect`, by an independent Python model of the Aiken type->Data encoding, and by an independent reader of the schema JSON; the up-cast of every value is compared with the model's encoding; a real validator checks redeemer/datum/parameter handling. Any disagreement not explained by a listed known finding is a violation.",
        "Trusted: schema_ref/model.py and schema_ref/jsonschema_read.py (written from the documentation). Known findings are keyed by the type feature that explains the disagreement (bare Pair, @tag on a record, self-nested generic, alias of recursive generic, @list cast, unchecked datum, cast round-trip elimination); everything else is reported as `unexplained`.",
        "DESIGN.md §3 C12",
    ),
    "C06": (
        "exploration",
        "runtime monitoring: classification oracle over the machine::Error variant of every evaluation of compiled well-typed code",
        "Every evaluation of compiled code whose arguments inhabit the declared types (G-aiken modules: generics at several instantiations, recursive types, higher-order functions, Data casts fed ill-shaped Data; both generator streams; silent and verbose builds; all harvested unit tests) is classified: structural machine errors (TypeMismatch, NonFunctionalApplication, NonPolymorphicInstantiation, OpenTermEvaluated, MissingCaseBranch, ...) and panics are forbidden; EvaluationFailure, DivideByZero, EmptyList, DeserialisationError and the other partial-builtin errors are allowed.",
        "Trusted: the classification table in oracles/aiken_checks.py (STRUCTURAL). Arguments inhabit the parameter types by construction (type-directed generation + independent type->Data model).",
        "DESIGN.md §3 C06",
    ),
    "C13": (
        "exploration",
        "runtime monitoring: format -> parse round-trip oracle on position-erased syntax trees, ordered comment texts, doc-comment anchors and idempotence, over shipped files, harvested snippets, a systematic surface-grammar enumerator, comment insertion and layout mutation; failing inputs delta-minimised to name the construct",
        "All 167 shipped .ak files, ~540 snippets harvested from the repository's own tests, ~9 500 systematically enumerated modules covering 196 grammar productions, random modules, ~6 000 comment-insertion variants and ~6 500 layout variants (quick; ~250 000 inputs thorough) are formatted by the real formatter; the output must parse, the full erased trees must be equal after the documented semantics-neutral normalisations, comment texts must be retained in order with every doc comment in front of the same token, and a second formatting must change nothing. Each failing input is minimised; the minimal construct is the violation key.",
        "Trusted: the span/position eraser over the Debug rendering (harness/src/surface.rs), oracles/surface/{judge,astnorm,classes}.py and the list of accepted normalisations in oracles/surface/NOTES.md.",
        "DESIGN.md §3 C13",
    ),
    "C14": (
        "exploration",
        "runtime monitoring: 9-way differential of the real toolchain over all trace levels x scopes (type-check and code generation both under the setting)",
        "Each G-aiken module (both streams) and each harvested unit test / validator is type-checked and compiled under all 9 Tracing values and evaluated on the same run-time arguments; value-or-abort (and pass/fail for tests under the V3 convention) must be identical across the nine. Acceptance by the type checker must not depend on the setting either.",
        "Trusted: the real machine as the common evaluator. Trace text, size and cost are not compared; aborting trace-message expressions are never generated (grey zone under Silent).",
        "DESIGN.md §3 C14",
    ),
    "C18": (
        "exploration",
        "runtime monitoring: history differential (step-by-step blueprint application with JSON save/load vs plain term application vs apply_params_to_script) with independent recomputation of hashes and an independent type model for conformance",
        "Generated validators with 1-4 parameters of generated serialisable types and a probe body that returns (p1..pn) == redeemer. After every application step: remaining parameters = tail, new code decodes to [old (con data p)], hash recomputed in Python, handlers of one validator stay in sync, save/load is a fixpoint; the fully applied validator must behave like the original applied by plain application and like apply_params_to_script on 4 contexts (incl. permuted parameters); non-conforming values at every position must be rejected with an error, never a panic, leaving the blueprint unchanged; applying to a validator without parameters must fail.",
        "Trusted: schema_ref model for conformance, Python hashlib, the harness JSON tree codec. Parameter types avoid the features with open C12 findings.",
        "DESIGN.md §3 C18",
    ),
    "C16": (
        "exploration",
        "runtime monitoring: the real PropertyTest::run / run_n_times observed next to an independent from_seed -> sample -> eval loop; executable model of the three expectations; counterexample re-evaluation, replay of recorded choices, shortlex bound; determinism histories (repeat, rebuilt test, threads, second process)",
        "Generated property tests over an own fuzz library (constant, lenient-on-replay, data-dependent choice counts, list_of / list_while, such_that with forgotten redraws, crashing fuzzers; labels) x {none, fail, fail once} x seeds x max_successes are run by the repository's framework; verdict, iteration count, labels and counterexample presence must equal a 15-line model fed by an independent sampling loop and a Python ground truth of each predicate; every reported counterexample is re-applied, regenerated from its choice sequence and compared in choice-sequence order with the first deciding case; every outcome is recomputed in-process, on a rebuilt test, in N threads and in a second process and must be byte-identical.",
        "Trusted: oracles/proptest/model.py and the Python predicates. Stated for Plutus V3; Seeded fuzzers answering None (the framework's stated precondition) are excluded. A watchdog timeout is inconclusive, never a violation.",
        "DESIGN.md §3 C16",
    ),
    "C19": (
        "exploration",
        "runtime monitoring: probe scripts inside recorded and synthetic transactions; five-way agreement on execution units, budget hand-over histories, missing-piece fault injection, permutation metamorphics, echoed script contexts against independently written ledger rules",
        "Recorded transactions harvested from the repository's tx tests and synthetic Conway transactions from an independent CBOR encoder (all six purposes, three languages, witness / reference scripts, inline / hashed datums) run through eval_phase_two with probe scripts: reported units == EvalResult cost == direct evaluation of the applied script == script applied to its echoed context == first principles; N probes of cost c under budget k*c + (c-1) must fail at redeemer k+1, with and without cost models; removing a needed datum / script / resolved input / redeemer must fail, never panic; shuffling resolved inputs, witness scripts and datums must change nothing; the echoed context is compared with a context rebuilt from the transaction model.",
        "Trusted: txsim/cbor.py, txgen.py, context_rules.py. Ledger rules were recalled from the specification (no network): an ordering observation that can neither be confirmed offline nor is pinned by the property text (treasury withdrawals) is reported as inconclusive, not as a verdict.",
        "DESIGN.md §3 C19",
    ),
    "C20": (
        "exploration",
        "runtime monitoring: crash/abort/blow-up monitor over subprocess shards with realistic stacks, hostile near-valid inputs, CPU-time growth series",
        "Every decoder/parser/loader entry point is driven with mutants of valid encodings, unknown names, huge length prefixes and nesting families up to depth 1024 (<= 16 KiB) inside subprocess shards with the stack of the real entry point; a caught panic, a dead shard or >= 4 consecutive CPU-time doublings per +2 nesting levels is a violation; a bare watchdog timeout is inconclusive.",
        "Trusted: the OS (rusage CPU time, exit status). Modest-input bound and stack sizes as stated in DESIGN.md; polynomial (e.g. cubic) slowness inside the bound is reported in evidence but not judged.",
        "DESIGN.md §3 C20",
    ),
}

NOT_YET = "check not built yet (work in progress; planned, see DESIGN.md)"


def main():
    checks = []
    for p in props:
        pid = p["id"]
        if pid not in CHECKS:
            continue
        cat, tech, text, note, ref = CHECKS[pid]
        checks.append({
            "property_id": pid,
            "quick_cmd": f"./check {pid} --tier quick",
            "thorough_cmd": f"./check {pid} --tier thorough",
            "evidence_file": f"/verif/evidence/{pid}.json",
            "replay_cmd_template": f"./check {pid} --replay {{path}}",
            "engine": "vh-monitors",
            "level_claimed": {"category": cat, "text": text, "design_ref": ref},
            "level_note": note,
            "technique": tech,
        })
    manifest = {
        "version": 1,
        "setup_cmd": "cd /verif/harness && cp -f /repo/Cargo.lock Cargo.lock && CARGO_NET_OFFLINE=true cargo build --release --offline",
        "hooks": {
            "guard": "cargo feature verif-hooks (crates uplc, aiken-lang, aiken-project; each enables the next)",
            "enable": "cd /verif/harness && cargo build --release --offline   (the harness crate depends on /repo/crates/* by path with the feature on)",
            "baseline_off_cmd": "cd /repo && (cargo nextest run --workspace --no-fail-fast --test-threads 8 --offline || cargo test --workspace --no-fail-fast --offline)",
            "source_commits": HOOK_COMMITS,
            "add_only": True,
        },
        "engines": [
            {
                "name": "vh-monitors",
                "path": "/verif/harness (Rust drivers) + /verif/oracles (Python reference models and offline checkers)",
                "serves_properties": sorted(CHECKS),
                "kind_free_text": "runtime monitoring: thin JSONL drivers run the real crates (built from /repo's working tree with hooks, overflow checks and debug assertions) on generated/enumerated/corpus workloads; independent Python oracles decide over the recorded events",
            }
        ],
        "checks": checks,
        "not_applicable": [{"property_id": p["id"], "reason": NOT_YET} for p in props if p["id"] not in CHECKS],
        "notes": "Verdicts are three-valued: exit 0 held, exit 1 VIOLATION, exit 2 INCONCLUSIVE (build failure, harness error, coverage floor not met). Known findings: /verif/known_findings.txt.",
    }
    with open(os.path.join(VERIF, "MANIFEST.json"), "w") as f:
        json.dump(manifest, f, indent=1)
    print("wrote MANIFEST.json with", len(checks), "checks")


if __name__ == "__main__":
    main()
