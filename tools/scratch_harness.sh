#!/bin/sh
# usage: tools/scratch_harness.sh <scratch-repo-dir> <scratch-dir>
# Creates <scratch-dir>/harness (a copy of /verif/harness whose path dependencies point at
# <scratch-repo-dir>) and prints the environment to run /verif checks against it.
set -e
repo="$1"; dir="$2"
mkdir -p "$dir"
rm -rf "$dir/harness"
cp -r /verif/harness "$dir/harness"
sed -i "s#/repo/crates#$repo/crates#g" "$dir/harness/Cargo.toml"
sed -i "s#target-dir = .*#target-dir = \"$dir/target\"#" "$dir/harness/.cargo/config.toml"
cp -f "$repo/Cargo.lock" "$dir/harness/Cargo.lock"
echo "export VERIF_REPO=$repo VERIF_HARNESS=$dir/harness VERIF_TARGET=$dir/target"
