#!/usr/bin/env python3
"""usage: save_seeded.py <ID> <agent-dir> <property> <round> <verdict> <confirm-result-line> <check-output-file> [<needs>]
Copies patch.diff, demo/ and notes.md from <agent-dir>/out to /verif/seeded/<ID>/ and writes meta.json."""
import sys, os, json, shutil, subprocess
sid, d, prop, rnd, verdict, confirm, chk = sys.argv[1:8]
needs = sys.argv[8] if len(sys.argv) > 8 else ""
dst = f"/verif/seeded/{sid}"
os.makedirs(dst, exist_ok=True)
shutil.copy(f"{d}/out/patch.diff", f"{dst}/patch.diff")
if os.path.isdir(f"{dst}/demo"): shutil.rmtree(f"{dst}/demo")
shutil.copytree(f"{d}/out/demo", f"{dst}/demo")
notes = open(f"{d}/out/notes.md").read() if os.path.exists(f"{d}/out/notes.md") else ""
open(f"{dst}/notes.md", "w").write(notes)
files = [l[6:].strip() for l in open(f"{dst}/patch.diff") if l.startswith("+++ b/")]
out = [l.rstrip()[:400] for l in open(chk)] if os.path.exists(chk) else []
out = [l for l in out if l.startswith(("VIOLATION", "INCONCLUSIVE", "exit=", "==="))][:12]
meta = {
 "property": prop, "round": int(rnd),
 "breaks": notes.strip().split("\n\n")[0][:1500] if notes else "",
 "needs_to_manifest": needs,
 "files_changed": files,
 "author": "fresh sub-agent that saw only the property text and a scratch worktree (nothing from /verif)",
 "confirmed_by_me": {"what_i_ran": "tools/confirm_seeded.sh: demo with patch, demo without patch, `cargo test -p <touched crates>` with patch (scratch worktree)", "result": confirm},
 "verdict": verdict, "check_output": out,
}
json.dump(meta, open(f"{dst}/meta.json", "w"), indent=1)
print("saved", dst)
